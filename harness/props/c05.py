"""C05 — polynomial relaxations bound the minimum over all sign orthants.
Tie: Model/PolyRep.v vs Polynomial.sig_rep / even_locations / standard_multiplier and sage_polys.create_covers on
polynomials with numeric and with Expression coefficients (mixed even/odd monomials, constant Expressions, -0.0).
The signomial machinery used after the representative is built is tied in C01/C02/C03/C13.
Oracle: p(x) >= sr(log|x|) exactly at random rational points of all orthants (for symbolic coefficients: for random
assignments satisfying sr's side constraints); solved primal/dual values against p on sampled points of every orthant
and of the coordinate hyperplanes; primal <= dual."""
import itertools
import math
import warnings
from fractions import Fraction

import numpy as np

from harness import vlib
from harness.vlib import Nat, cq, Raw
from harness.props import c12, c13

RULE = ('case = polynomial with 1-5 monomials (powers 0..4, n<=3), numeric or Expression coefficients (variables, affine forms, '
        'constant Expressions, zeros); compared: signomial representative (alpha, coefficient cells), which coefficients need '
        'auxiliary variables, create_covers, standard_multiplier; non-trivial = polynomial with at least one odd and one even monomial')
TRUSTED = ['correspondence harness harness/props/c05.py', 'ORACLE: ECOS for the value checks',
           'extension of the bound to points with zero coordinates: proved for X = R^n by a limit argument only if stated in the evidence '
           'obligations; for a PolyDomain it is the domain\'s documented closure property (hypothesis)',
           'strong duality not proved (observed)']
ASSUMPTIONS = ['Model/PolyRep.v is hand written; tied by correspondence only']
HEADER = ('From Coq Require Import List Bool Arith ZArith QArith.\n'
          'From SageVerif Require Import Model.Expr Model.Signomial Model.SymSig Model.PolyRep Base.Corr.\nImport ListNotations.\n'
          'Definition model (x : list (qrow * sexpr) * list Z) :=\n'
          "  let '(p, hats) := x in let '(sr, side) := sig_rep p hats in\n"
          '  (sr, map fst side, create_covers sr, standard_multiplier (map fst p), even_locations p).\n'
          'Definition ssig_eqb2 (f g : ssig) : bool := ssig_eqb (Some f) (Some g).\n'
          'Definition out_eqb := pair_eqb (pair_eqb (pair_eqb (pair_eqb ssig_eqb2 (list_eqb Z.eqb)) '
          '(list_eqb (option_eqb (list_eqb Bool.eqb)))) (fun f g => sig_out_eqb (Some f) (Some g))) (list_eqb Nat.eqb).\n')
HEADER = HEADER.replace('Model.PolyRep Base.Corr', 'Model.SigExpr Model.PolyRep Base.Corr')
NV = 4


def gen_poly(rng, n, symbolic):
    m = rng.randint(1, 5)
    rows = []
    for _ in range(m):
        a = [Fraction(rng.choice([0, 0, 1, 2, 2, 3, 4])) for _ in range(n)]
        if a in [r for r, _ in rows]:
            continue
        if symbolic:
            k = rng.random()
            if k < 0.45:
                cell = c13.gen_aff(rng)
            elif k < 0.75:
                cell = ({}, Fraction(rng.choice([0, 1, -2, 3, -1])))
            else:
                cell = ({rng.randrange(NV): Fraction(1)}, Fraction(0))
        else:
            cell = ({}, Fraction(rng.choice([1, -1, 2, -3, 0, 4])))
        rows.append((a, cell))
    return rows


def build(rows, n, symbolic, w):
    import sageopt.coniclifts as cl
    from sageopt.symbolic.polynomials import Polynomial
    alpha = np.array([[float(x) for x in a] for a, _ in rows]).reshape(len(rows), n)
    if symbolic:
        cells = [w.aff(c) if c[0] else float(c[1]) for _, c in rows]
        return Polynomial(alpha, cl.Expression(cells))
    return Polynomial(alpha, np.array([float(c[1]) for _, c in rows]))


def poly_dual_case(rng):
    """dual form of a constrained POLYNOMIAL relaxation (ell = 0): the multiplier/constraint pairs are captured from make_poly_lagrangian
    and every array from moment_reduction_array as poly_constrained_dual itself obtains them; a and the objective are read off the Problem"""
    import sageopt as so
    import sageopt.coniclifts as cl
    from sageopt.relaxations import sage_polys as sp
    from sageopt.relaxations import symbolic_correspondences as scor
    from harness.props import c04
    n = rng.randint(1, 2)
    x = so.standard_poly_monomials(n)
    mono = lambda: float(rng.choice([1, -1, 2, -3])) * np.prod([x[j] ** rng.choice([0, 1, 2]) for j in range(n)])
    f = sum(mono() for _ in range(rng.randint(2, 3))) + x[0] ** 4 + float(rng.choice([0, 1]))
    gts = [float(rng.choice([1, 4])) - sum(x[j] ** 2 for j in range(n))] + ([x[0] + 2.0] if rng.random() < 0.5 else [])
    eqs = [x[0] * x[n - 1] - 0.5] if rng.random() < 0.4 else []
    p_, q_ = rng.choice([0, 0, 1]), 1
    cap = {'mra': []}
    o1, o2 = sp.make_poly_lagrangian, scor.moment_reduction_array

    def spy1(*a, **k):
        out = o1(*a, **k)
        cap['lag'] = out
        return out

    def spy2(s_h, h, L):
        C = o2(s_h, h, L)
        cap['mra'].append(np.asarray(C, dtype=float))
        return C
    sp.make_poly_lagrangian, scor.moment_reduction_array = spy1, spy2
    try:
        with warnings.catch_warnings():
            warnings.simplefilter('ignore')
            prob = sp.poly_constrained_dual(f, gts, eqs, p_, q_, 0)
    finally:
        sp.make_poly_lagrangian, scor.moment_reduction_array = o1, o2
    L, ineq, eqm, _ = cap['lag']
    if len(cap['mra']) != len(ineq) + len(eqm):
        raise ValueError('poly_constrained_dual called moment_reduction_array %d times for %d multipliers' % (len(cap['mra']), len(ineq) + len(eqm)))
    v = [u for u in prob.all_variables if u.name == 'v'][0]
    vids = [int(i) for i in np.asarray(v.scalar_variable_ids).ravel().tolist()]
    last = list(prob.constraints[-1].expr.flat)[0]
    amap = {}
    for at, co in last.atoms_to_coeffs.items():
        amap[int(at.id)] = amap.get(int(at.id), Fraction(0)) + Fraction(float(co))
    off = Fraction(float(last.offset))
    if prob.constraints[-1].operator != '==' or off not in (Fraction(1), Fraction(-1)) or any(i not in vids for i in amap):
        raise ValueError('the last constraint of the dual problem is not a.v == 1')
    a = [(-amap.get(i, Fraction(0)) if off == 1 else amap.get(i, Fraction(0))) for i in vids]
    vm = prob.variable_map[v.name].ravel().tolist()
    obj = [Fraction(float(prob.c[col])) if col >= 0 else Fraction(0) for col in vm]
    mats = [vlib.Some([[Fraction(float(t_)) for t_ in row] for row in C.tolist()]) for C in cap['mra']]
    gm = [(c04.grid_rows(s_.alpha), c12.canon(g_)) for s_, g_ in ineq]
    hm = [(c04.grid_rows(z_.alpha), c12.canon(h_)) for z_, h_ in eqm]
    cin = cq((Nat(n), c12.canon(f), c04.grid_rows(L.alpha), gm, hm))
    cout = cq((a, obj, mats[:len(ineq)], mats[len(ineq):]))
    return cin, cout, {'n': n, 'p': p_, 'L_rows': int(L.m), 'ineq': len(ineq), 'eq': len(eqm)}


def run(ctx):
    from sageopt.relaxations import sage_polys as sp
    from sageopt.coniclifts.base import Expression
    from harness.props import c04
    pduals = []
    for _ in range(ctx.n(40, 400)):
        try:
            cin_, cout_, meta_ = poly_dual_case(ctx.rng)
            if meta_['L_rows'] <= 40:
                pduals.append((meta_, cin_, cout_))
                ctx.count('poly_dual_multipliers', meta_['ineq'] + meta_['eq'])
        except ValueError as e:
            ctx.problem('correspondence', 'dual form of the constrained polynomial relaxation: %s' % e, inputs={'suite': 'poly_constrained_dual'},
                        failing_input_found=False)
            break
        except Exception as e:
            ctx.count('poly_dual_builder_error', type(e).__name__)
    ctx.evaluations += len(pduals)
    mism, err = vlib.run_suite_in_coq(ctx.pid, 'poly_constrained_dual', c04.HEADER, 'model_cdual', 'cdual_eqb',
                                      'nat * qsig * list qrow * list (list qrow * qsig) * list (list qrow * qsig)',
                                      'list Q * list Q * list (option (list (list Q))) * list (option (list (list Q)))',
                                      [(c[1], c[2]) for c in pduals], shard=60)
    ctx.suites['poly_constrained_dual'] = {'cases': len(pduals), 'mismatches': None if mism is None else len(mism)}
    if err:
        ctx.problem('correspondence', 'suite poly_constrained_dual: ' + err)
    else:
        for idx in mism[:3]:
            model_out = vlib.coq_show(c04.HEADER, 'model_cdual %s' % pduals[idx][1])
            ctx.problem('correspondence', 'suite poly_constrained_dual: model and implementation disagree on %s; impl=%s model=%s'
                        % (pduals[idx][0], pduals[idx][2][:900], model_out[:900]), inputs=pduals[idx][0], failing_input_found=False)
    from harness.props import lattice
    if True:
        import sageopt as so
        from sageopt.relaxations import sage_polys as sp_
        x_ = so.standard_poly_monomials(2)
        f_ = x_[0] ** 4 + x_[1] ** 2 - x_[0] * x_[1] + x_[0]
        bl = [('poly_relaxation', fm, (lambda fm=fm: sp_.poly_relaxation(f_, form=fm))) for fm in ('primal', 'dual')]
        bl += [('poly_constrained_relaxation', fm, (lambda fm=fm: sp_.poly_constrained_relaxation(f_, [4 - x_[0] ** 2 - x_[1] ** 2], [], form=fm, p=0, q=1, ell=0)))
               for fm in ('primal', 'dual')]
        why_s, ns_ = lattice.scripted_no_certificate(bl, ctx.rng)
        ctx.evaluations += ns_
        ctx.suites['scripted_solver_outcomes'] = {'cases': ns_, 'failure': why_s}
        if why_s:
            ctx.problem('oracle', 'property fails on the implementation: ' + why_s, inputs={'suite': 'scripted_solver_outcomes'}, failing_input_found=True)
    why, nsolves = lattice.lattice_c05(ctx)
    ctx.evaluations += nsolves
    ctx.suites['option_level_lattice'] = {'solves': nsolves, 'failure': why}
    if why:
        ctx.problem('oracle', 'property fails on the implementation: ' + why, inputs={'suite': 'option_level_lattice'}, failing_input_found=True)
    cases = []
    for k in range(ctx.n(300, 3000)):
        n = ctx.rng.randint(1, 3)
        symbolic = ctx.rng.random() < 0.5
        rows = gen_poly(ctx.rng, n, symbolic)
        w = c13.World('random', ctx.rng)
        with warnings.catch_warnings():
            warnings.simplefilter('ignore')
            p = build(rows, n, symbolic, w)
            sr, cons = p.sig_rep
        # canonical ids for the auxiliary c_hat variables
        hats = []
        if cons:
            chat = cons[0].lhs if hasattr(cons[0], 'lhs') else None
            ids = [int(i) for i in Expression(cons[0].lhs).ravel()[0].atoms_to_coeffs and [list(se.atoms_to_coeffs)[0].id for se in Expression(cons[0].lhs).flat]]
            for j, sid in enumerate(ids):
                w.idmap[sid] = 500 + j
                hats.append(500 + j)
        prow = c13.canon(p, w)
        srow = c13.canon(sr, w)
        covers = sp.create_covers(sr)
        cov = [vlib.Some([bool(x) for x in covers[i].tolist()]) if i in covers else None for i in range(sr.m)]
        mult = c12.canon(p.standard_multiplier())
        ev = [Nat(int(i)) for i in p.even_locations().tolist()]
        js = {'n': n, 'symbolic': symbolic, 'p': [[[str(x) for x in a], str(c)] for a, c in rows]}
        has_odd = any(any(int(x) % 2 for x in a) for a, _ in rows)
        has_even = any(all(int(x) % 2 == 0 for x in a) for a, _ in rows)
        ctx.count('coefficients', 'symbolic' if symbolic else 'numeric')
        ctx.count('aux_vars', len(hats))
        if has_odd and has_even:
            ctx.nontrivial.add(vlib.sha(js))
        cases.append((js, '(%s, %s)' % (c13.rows_coq(prow), cq(hats if hats else [600, 601, 602, 603, 604])),
                      '(%s, %s, %s, %s, %s)' % (c13.rows_coq(srow), cq(hats), cq(cov), cq(mult), cq(ev))))
        why = oracle_sigrep(ctx.rng, rows, n, symbolic, p, sr, cons, w)
        if why:
            ctx.problem('oracle', 'property fails on the implementation: ' + why, inputs=js, failing_input_found=True)
            break
    ctx.evaluations += len(cases)
    mism, err = vlib.run_suite_in_coq(ctx.pid, 'sigrep', HEADER, 'model', 'out_eqb', 'list (qrow * sexpr) * list Z',
                                      'ssig * list Z * list (option (list bool)) * qsig * list nat', [(c[1], c[2]) for c in cases], shard=100)
    ctx.suites['sigrep'] = {'cases': len(cases), 'mismatches': None if mism is None else len(mism)}
    if err:
        ctx.problem('correspondence', 'suite sigrep: ' + err)
    else:
        if cases:
            ctx.samples.append({'suite': 'sigrep', 'instance': cases[len(cases) // 2][0]})
        for idx in mism[:3]:
            model_out = vlib.coq_show(HEADER, 'model %s' % cases[idx][1])
            ctx.problem('correspondence', 'suite sigrep: model and implementation disagree on %s; input=%s impl=%s model=%s (the exact oracle passed)'
                        % (cases[idx][0], cases[idx][1][:600], cases[idx][2][:1200], model_out[:1200]), inputs=cases[idx][0], failing_input_found=False)
    why = oracle_values(ctx)
    if why:
        ctx.problem('oracle', 'property fails on the implementation: ' + why[0], inputs=why[1], failing_input_found=True)


def mono(a, x):
    v = Fraction(1)
    for ai, xi in zip(a, x):
        v *= xi ** int(ai)
    return v


def oracle_sigrep(rng, rows, n, symbolic, p, sr, cons, w):
    """p(x) >= sr(log|x|), exactly"""
    from sageopt.coniclifts.base import Expression
    prow = c13.canon(p, w)
    srow = c13.canon(sr, w)
    if [a for a, _ in prow] != [a for a, _ in srow] and len(prow) == len(srow):
        pass
    for _ in range(4):
        env = {i: Fraction(rng.randint(-4, 4), rng.choice([1, 2])) for i in range(NV)}
        # auxiliary c_hat values: the largest allowed (-|c|) or smaller
        val = lambda cell: sum(c * env[i] for i, c in cell[0].items()) + cell[1]
        pc = {tuple(a): val(cell) for a, cell in prow}
        for a, cell in srow:
            for i in cell[0]:
                if i >= 500:
                    env[i] = -abs(pc.get(tuple(a), Fraction(0))) - Fraction(rng.choice([0, 0, 1, 2]))
        x = [Fraction(rng.choice([-3, -2, -1, 1, 2, 3]), rng.choice([1, 2])) for _ in range(n)]
        ax = [abs(v) for v in x]
        pv = sum(val(cell) * mono(a, x) for a, cell in prow)
        sv = sum(val(cell) * mono(a, ax) for a, cell in srow)
        if pv < sv:
            return 'p(x) = %s < sr(log|x|) = %s at x = %s with coefficient assignment %s' % (pv, sv, [str(v) for v in x], {k_: str(v) for k_, v in env.items()})
    return None


def oracle_values(ctx):
    import sageopt as so
    from sageopt.relaxations import sage_polys as sp
    rng = ctx.rng
    with warnings.catch_warnings():
        warnings.simplefilter('ignore')
        for trial in range(ctx.n(6, 40)):
            n = rng.randint(1, 2)
            x = so.standard_poly_monomials(n)
            # even dominant terms + odd / mixed lower-order terms: bounded below
            p = sum(float(rng.choice([1, 2])) * x[i] ** 4 for i in range(n)) + float(rng.choice([1, -1, 2, -3])) * x[0]
            if trial >= 2:      # the first two instances are the sparse ones: x0^4 (+ x1^4) + c x0
                if rng.random() < 0.6:
                    p = p + (float(rng.choice([1, -2])) * x[0] * x[n - 1] if n > 1 else float(rng.choice([1, -2])) * x[0] ** 3)
                if rng.random() < 0.6:
                    p = p + float(rng.choice([1, -1])) * x[n - 1] ** 2
                p = p + float(rng.choice([0, 1, 3]))
            js = {'p': str(c12.canon(p))}
            vals = {}
            for form in ('primal', 'dual'):
                for ell, sell in ((0, 0), (1, 0), (0, 1), (1, 1)):
                    try:
                        vals[('free', form, ell, sell)] = sp.poly_relaxation(p, form=form, poly_ell=ell, sigrep_ell=sell).solve(verbose=False)
                    except Exception as e:
                        vals[('free', form, ell, sell)] = ('error', repr(e)[:60])
            g = [4 - sum(x[i] ** 2 for i in range(n))]
            for form in ('primal', 'dual'):
                for ell in (0, 1):
                    try:
                        vals[('con', form, ell, 0)] = sp.poly_constrained_relaxation(p, g, [], form=form, p=0, q=1, ell=ell).solve(verbose=False)
                    except Exception as e:
                        vals[('con', form, ell, 0)] = ('error', repr(e)[:60])
            if trial < 2:
                # higher level of the polynomial hierarchy on a polynomial with a positive minimum: 3 + c x + x^2 (+ x^4)
                xq = so.standard_poly_monomials(1)
                cq_ = float(rng.choice([1, -1, 2]))
                pq_ = 3 + cq_ * xq[0] + xq[0] ** 2 + (xq[0] ** 4 if trial == 1 else 0)
                ubq = min(float(pq_(np.array([t_]))) for t_ in np.linspace(-2, 2, 801))
                vq = {}
                for form in ('primal', 'dual'):
                    for ell_ in ((1, 2) if trial == 0 else (1,)):
                        try:
                            vq[(form, ell_)] = sp.poly_relaxation(pq_, form=form, poly_ell=ell_).solve(verbose=False)
                        except Exception as e:
                            vq[(form, ell_)] = ('error', repr(e)[:60])
                ctx.evaluations += 4
                for key_, (st_, val_) in vq.items():
                    if st_ == 'solved' and isinstance(val_, float) and math.isfinite(val_) and val_ > ubq + 1e-4 * (1 + abs(ubq)):
                        return ('%s value %r of poly_relaxation(poly_ell=%d) of %s exceeds its minimum (%r)' % (key_[0], val_, key_[1], c12.canon(pq_), ubq),
                                {'p': str(c12.canon(pq_))})
                for ell_ in ((1, 2) if trial == 0 else (1,)):
                    a_, b_ = vq[('primal', ell_)], vq[('dual', ell_)]
                    if a_[0] == b_[0] == 'solved' and isinstance(a_[1], float) and isinstance(b_[1], float) and math.isfinite(a_[1]) and math.isfinite(b_[1]) \
                            and abs(a_[1] - b_[1]) > 1e-3 * (1 + abs(a_[1])):
                        return ('poly_relaxation(poly_ell=%d) of %s: primal %r and dual %r differ' % (ell_, c12.canon(pq_), a_[1], b_[1]), {'p': str(c12.canon(pq_))})
                # conditional primal/dual over a PolyDomain whose bound is active, with a negative even monomial and an odd term
                k2_, k1_ = (3.0, 2.0) if trial == 0 else (float(rng.choice([3, 2])), float(rng.choice([2, 1])))
                pc_ = xq[0] ** 4 - k2_ * xq[0] ** 2 - k1_ * xq[0]
                with warnings.catch_warnings():
                    warnings.simplefilter('ignore')
                    Xc = sp.infer_domain(pc_, [1 - xq[0] ** 2], [])
                ubc_ = min(float(pc_(np.array([t_]))) for t_ in np.linspace(-1, 1, 401))
                vc = {}
                for form in ('primal', 'dual'):
                    try:
                        vc[(form, 'constrained')] = sp.poly_constrained_relaxation(pc_, [1 - xq[0] ** 2], [], Xc, form=form, p=0, q=1, ell=0).solve(verbose=False)
                        vc[(form, 'X only')] = sp.poly_constrained_relaxation(pc_, [], [], Xc, form=form, p=0, q=1, ell=0).solve(verbose=False)
                        vc[(form, 'poly_ell=1')] = sp.poly_relaxation(pc_, X=Xc, form=form, poly_ell=1).solve(verbose=False)
                    except Exception as e:
                        vc[(form, 'error')] = ('error', repr(e)[:60])
                ctx.evaluations += 4
                for key_, (st_, val_) in vc.items():
                    if st_ == 'solved' and isinstance(val_, float) and math.isfinite(val_) and val_ > ubc_ + 1e-4 * (1 + abs(ubc_)):
                        return ('%s value %r (%s) of %s over |x| <= 1 exceeds p at a feasible point (%r)' % (key_[0], val_, key_[1], c12.canon(pc_), ubc_),
                                {'p': str(c12.canon(pc_))})
                # g = -p written AFTER p's signomial representative was computed is the polynomial -p
                po_ = xq[0] ** 4 + float(rng.choice([1, 2])) * xq[0] ** 3 - xq[0] + 2
                _ = po_.sig_rep
                gneg = -po_
                fresh = so.Polynomial(np.asarray(po_.alpha, dtype=float).copy(), -np.asarray(po_.c, dtype=float))
                def rows_of(sr_):
                    cs_ = [float(ci.value) if hasattr(ci, 'value') else float(ci) for ci in np.asarray(sr_.c, dtype=object).ravel().tolist()]
                    return sorted((tuple(r_), c_) for r_, c_ in zip(np.asarray(sr_.alpha, dtype=float).tolist(), cs_))
                sr1, sr2 = gneg.sig_rep[0], fresh.sig_rep[0]
                if rows_of(sr1) != rows_of(sr2):
                    return ('the signomial representative of -p (p = %s, p.sig_rep computed first) is %s; that of a freshly built -p is %s'
                            % (c12.canon(po_), rows_of(sr1), rows_of(sr2)), {'p': str(c12.canon(po_))})
            # multipliers that are polynomials (p = 1) on problems whose minimiser has a negative coordinate
            if trial < 4:
                xo = so.standard_poly_monomials(2 if trial >= 2 else 1)
                sg = 1.0 if trial % 2 == 0 else -1.0        # both reflections: the minimiser lies in a different orthant
                if trial >= 2:
                    po = xo[0] * xo[1] + sg * xo[0] - xo[1] ** 2
                    go = [1 - xo[0] ** 2, 1 - xo[1] ** 2]
                    pts = [np.array(pt_) for pt_ in itertools.product(np.linspace(-1, 1, 41), repeat=2)]
                else:
                    po = sg * (xo[0] ** 3 - 2 * xo[0])
                    go = [1 - xo[0] ** 2]
                    pts = [np.array([t_]) for t_ in np.linspace(-1, 1, 401)]
                ubo = min(float(po(pt_)) for pt_ in pts)
                vo = {}
                for form in ('primal', 'dual'):
                    try:
                        vo[form] = sp.poly_constrained_relaxation(po, go, [], form=form, p=1, q=1, ell=0).solve(verbose=False)
                    except Exception as e:
                        vo[form] = ('error', repr(e)[:60])
                ctx.evaluations += 2
                ctx.count('value_checks', 'p=1 instances')
                for form, (st_, val_) in vo.items():
                    if st_ == 'solved' and isinstance(val_, float) and math.isfinite(val_) and val_ > ubo + 1e-4 * (1 + abs(ubo)):
                        return ('%s value %r of the (p,q,ell)=(1,1,0) relaxation of %s on the unit box exceeds p at a feasible point (%r)'
                                % (form, val_, c12.canon(po), ubo), {'p': str(c12.canon(po))})
                a_, b_ = vo['primal'], vo['dual']
                if a_[0] == b_[0] == 'solved' and isinstance(a_[1], float) and isinstance(b_[1], float) and math.isfinite(a_[1]) and math.isfinite(b_[1]) \
                        and a_[1] > b_[1] + 1e-4 * (1 + abs(b_[1])):
                    return ('primal value %r exceeds dual value %r at (p,q,ell)=(1,1,0) for %s' % (a_[1], b_[1], c12.canon(po)), {'p': str(c12.canon(po))})
            # the constrained builder without constraints, with a modulator
            for form in ('primal', 'dual'):
                try:
                    vals[('free', form, 'constrained-builder', 1)] = sp.poly_constrained_relaxation(p, [], [], form=form, p=0, q=1, ell=1).solve(verbose=False)
                except Exception as e:
                    vals[('free', form, 'constrained-builder', 1)] = ('error', repr(e)[:60])
            # a PolyDomain in which the last coordinate is not constrained at all: X = {x : |x0| <= 1}, with an objective whose
            # minimum over X lies on the boundary of X
            p2 = x[n - 1] ** 4 + float(rng.choice([-4, 4, -2])) * x[0] * x[n - 1] ** 2 + float(rng.choice([0, 1])) if n > 1 else p
            js['p2'] = str(c12.canon(p2))
            try:
                X = sp.infer_domain(p2, [1 - x[0] ** 2], [])
                for form in ('primal', 'dual'):
                    vals[('dom', form, 0, 0)] = sp.poly_relaxation(p2, X=X, form=form).solve(verbose=False)
                    vals[('domcon', form, 0, 0)] = sp.poly_constrained_relaxation(p2, [1 - x[0] ** 2], [], X, form=form, p=0, q=1, ell=0).solve(verbose=False)
            except Exception as e:
                vals[('dom', 'primal', 0, 0)] = ('error', repr(e)[:60])
            ctx.evaluations += len(vals)
            ctx.count('value_checks', 'instances')
            ub = {'free': math.inf, 'con': math.inf, 'dom': math.inf, 'domcon': math.inf}
            grid = [-2.0, -1.5, -1.0, -0.75, -0.5, -0.25, 0.0, 0.25, 0.5, 0.75, 1.0, 1.5, 2.0]
            for pt in itertools.product(grid, repeat=n):
                pv = float(p(np.array(pt)))
                ub['free'] = min(ub['free'], pv)
                if sum(t * t for t in pt) <= 4:
                    ub['con'] = min(ub['con'], pv)
                if abs(pt[0]) <= 1:
                    ub['dom'] = min(ub['dom'], float(p2(np.array(pt))))
                    ub['domcon'] = ub['dom']
            for key, (st, val) in vals.items():
                if st != 'solved' or not isinstance(val, float) or not math.isfinite(val):
                    continue
                bound = ub[key[0]]
                if val > bound + 1e-4 * (1 + abs(bound)):
                    return ('%s value %r exceeds p at a real feasible point (min over a grid incl. negative and zero coordinates: %r)' % (key, val, bound), js)
            for key in vals:
                if key[1] != 'primal':
                    continue
                a, b = vals[key], vals.get((key[0], 'dual') + key[2:], ('none', 0))
                if a[0] == b[0] == 'solved' and isinstance(a[1], float) and isinstance(b[1], float) and math.isfinite(a[1]) and math.isfinite(b[1]) \
                        and a[1] > b[1] + 1e-4 * (1 + abs(b[1])):
                    return ('primal value %r exceeds dual value %r for %s' % (a[1], b[1], key), js)
    return None


def search(ctx):
    before = len(ctx.problems)
    run(ctx)
    for pr in ctx.problems[before:]:
        if pr['failing_input_found']:
            return pr['inputs']
    del ctx.problems[before:]
    return None


def replay(payload):
    ctx = vlib.Ctx('C05', 'quick', int(payload.get('seed', 0)))
    found = search(ctx)
    print(found or 'property holds on the regenerated instances')
    return 1 if found else 0
