"""C16 — moment-reduction matrices express multiplier products exactly.
Tie: Model/SymCorr.v vs symbolic_correspondences.py (relative_coeff_vector, moment_reduction_array) on random triples,
row permutations of L, perturbed reference rows (inside / outside the 1e-8 tolerance) and missing exponents.
Oracle: the identity s(x)h(x) = s.c.(C G_L(x)) at random rational points (y = t^2), for s's own and for other coefficient
vectors when the symbolic product's exponents are contained in L; a missing exponent must raise."""
import itertools
import warnings
from fractions import Fraction

import numpy as np

from harness import vlib
from harness.vlib import Nat, cq, Raw

RULE = ('case = (s_h, h, L) triple (numeric s_h, or s_h with Variable coefficients as the builders use) or (g, reference rows) '
        'for relative_coeff_vector; L rows permuted, extra rows added, rows removed (missing exponent) or perturbed by 2^-29 / '
        '2^-25; non-trivial = |s_h|>=2 and |h|>=2; distinct by input hash')
TRUSTED = ['correspondence harness harness/props/c16.py', 'translator harness/translator/symcorr_tr.py (Gen/GenSymCorr.v: loops/appends/conditionals structurally, three array statements through Model/SymCorrIdioms.v; Signomial product and constructor are calls to their models)', 'float arithmetic exact on half-integer exponents and small integer coefficients']
ASSUMPTIONS = ['Model/SymCorr.v is hand written; tied by correspondence and, since the sixth session, by the translator: symbolic_correspondences.py is regenerated (Gen/GenSymCorr.v) and proved equal to it on every input',
               'the exponent tolerance is regenerated from the source (10 ** -(decimal points + 1)) and proved to be the model\'s 10^-8']
HEADER = ('From Coq Require Import List Bool Arith ZArith QArith.\n'
          'From SageVerif Require Import Model.Signomial Model.SolverForms Model.SymCorr Base.Corr.\n'
          'Definition res_eqb (a : result (list (list Q))) (b : option (list (list Q))) : bool :=\n'
          '  match a, b with Ok m, Some m2 => list_eqb (list_eqb Qeqb) m m2 | Err _, None => true | _, _ => false end.')


GEN_HEADER = HEADER.replace('Model.SymCorr Base.Corr.', 'Model.SymCorr Model.SymCorrIdioms Gen.GenConsts Gen.GenSymCorr Base.Corr.')
USES_TRANSLATOR = True


def gen_suite(ctx, name, expr, eqb, in_ty, out_ty, cases, shard):
    """the same cases against the function GENERATED from symbolic_correspondences.py (Gen/GenSymCorr.v): validates the idiom table"""
    mism, err = vlib.run_suite_in_coq(ctx.pid, name, GEN_HEADER, expr, eqb, in_ty, out_ty, [(c[1], c[2]) for c in cases], shard=shard)
    ctx.suites[name] = {'cases': len(cases), 'mismatches': None if mism is None else len(mism)}
    if err:
        ctx.problem('correspondence', 'suite %s: %s' % (name, err))
    else:
        for idx in mism[:2]:
            ctx.problem('correspondence', 'suite %s: the function generated from symbolic_correspondences.py and the implementation disagree on %s; impl=%s'
                        % (name, cases[idx][0], cases[idx][2][:300]), inputs={'suite': name, 'input': cases[idx][0]}, failing_input_found=False)


def mods():
    from sageopt.symbolic.signomials import Signomial
    from sageopt.symbolic.polynomials import Polynomial
    from sageopt.relaxations import symbolic_correspondences as sc
    return Signomial, Polynomial, sc


def gen_sig_rows(rng, n, m, poly):
    rows = []
    seen = set()
    while len(rows) < m:
        a = tuple(Fraction(rng.choice([0, 1, 2, 3]) if poly else rng.choice([0, 1, -1, 2, 3, -3]), 1 if poly else rng.choice([1, 2]))
                  for _ in range(n))
        if a in seen:
            continue
        seen.add(a)
        rows.append((list(a), Fraction(rng.choice([1, -1, 2, -2, 3, 5, -4, 1, -3, 9]), rng.choice([1, 1, 2, 4]))))
    return rows


def to_obj(rows, n, poly, symbolic=False, name='c'):
    Signomial, Polynomial, _ = mods()
    alpha = np.array([[float(a) for a in r] for r, _ in rows]).reshape(len(rows), n)
    if symbolic:
        import sageopt.coniclifts as cl
        c = cl.Variable(shape=(len(rows),), name=name)
    else:
        c = np.array([float(c) for _, c in rows])
    return (Polynomial if poly else Signomial)(alpha, c)


def mono(a, tpt, poly):
    v = Fraction(1)
    for ai, ti in zip(a, tpt):
        e = ai if poly else 2 * ai
        v *= ti ** int(e)
    return v


def evalrows(rows, tpt, poly):
    return sum(c * mono(a, tpt, poly) for a, c in rows)


MUTATED = []


def impl_mra(s_rows, h_rows, L_rows, n, poly, symbolic, opts=None):
    opts = opts or {}
    _, _, sc = mods()
    with warnings.catch_warnings():
        warnings.simplefilter('ignore')
        s = to_obj(s_rows, n, poly, symbolic)
        if symbolic and opts.get('zero_values'):
            # the Variable coefficients currently HOLD the value 0 (left over from an earlier solve): they are still unknowns
            s.c.value = np.zeros(len(s_rows))
        h = to_obj(h_rows, n, poly)
        if opts.get('stripped_row') is not None:
            # L is obtained by without_zeros() from a function that carried an explicit zero coefficient on one more exponent and whose
            # coefficient table had already been consulted: that exponent is NOT an exponent of L
            L0 = to_obj(L_rows + [(opts['stripped_row'], Fraction(0))], n, poly)
            _ = L0.alpha_c
            _ = L0.query_coeff(np.array([float(v) for v in opts['stripped_row']]))
            L = L0.without_zeros()
        else:
            L = to_obj(L_rows, n, poly)
        snap = [(np.asarray(o.alpha, dtype=float).copy(), None if symbolic and o is s else np.asarray(o.c, dtype=float).copy()) for o in (s, h, L)]
        try:
            C = sc.moment_reduction_array(s, h, L)
        except RuntimeError:
            C = None
        # the function reads its arguments: they are what they were, and a second call with the same triple gives the same answer
        for nm, o, (a0, c0) in zip(('s_h', 'h', 'L'), (s, h, L), snap):
            if not np.array_equal(np.asarray(o.alpha, dtype=float), a0) or (c0 is not None and not np.array_equal(np.asarray(o.c, dtype=float), c0)):
                MUTATED.append('moment_reduction_array changed its argument %s: exponents %s -> %s' % (nm, a0.tolist(), np.asarray(o.alpha, dtype=float).tolist()))
        try:
            C2 = sc.moment_reduction_array(s, h, L)
        except RuntimeError:
            C2 = None
        if (C is None) != (C2 is None) or (C is not None and not np.array_equal(np.asarray(C, dtype=float), np.asarray(C2, dtype=float))):
            MUTATED.append('two calls of moment_reduction_array with the same (s_h, h, L) gave different results')
        if C is None:
            return None
    return vlib.Some([[Fraction(v) for v in r] for r in np.asarray(C, dtype=float).tolist()])


def oracle_mra(s_rows, h_rows, L_rows, n, poly, symbolic, rng, opts=None):
    """property statement on the implementation; None if it holds"""
    out = impl_mra(s_rows, h_rows, L_rows, n, poly, symbolic, opts)
    Lset = {tuple(a) for a, _ in L_rows}
    allpairs = {tuple(x + y for x, y in zip(a, b)) for a, _ in s_rows for b, hc in h_rows if hc != 0}
    if out is None:
        # an error is legitimate only if some exponent of s*h is missing from L
        prod = {}
        for a, sc_ in s_rows:
            for b, hc in h_rows:
                k = tuple(x + y for x, y in zip(a, b))
                prod[k] = prod.get(k, 0) + sc_ * hc
        need = set(prod) if symbolic else {k for k, v in prod.items() if v != 0}
        if symbolic:
            need = allpairs
        if need <= Lset:
            return 'raised although every exponent of s*h is in L'
        return None
    C = out.v
    if symbolic and not (allpairs <= Lset):
        return 'exponent %s of s*h is missing from L but no error was raised' % (sorted(allpairs - Lset)[:1],)
    coeff_sets = [[c for _, c in s_rows]]
    if allpairs <= Lset:
        coeff_sets += [[Fraction(rng.randint(-3, 3)) for _ in s_rows] for _ in range(3)]
    for coeffs in coeff_sets:
        if symbolic and coeffs is coeff_sets[0]:
            continue
        for _ in range(3):
            tpt = [Fraction(rng.randint(1, 4), rng.randint(1, 3)) for _ in range(n)]
            G = [mono(a, tpt, poly) for a, _ in L_rows]
            lhs = sum(c * mono(a, tpt, poly) for (a, _), c in zip(s_rows, coeffs)) * evalrows(h_rows, tpt, poly)
            rhs = sum(c * sum(Cik * g for Cik, g in zip(Ci, G)) for c, Ci in zip(coeffs, C))
            if lhs != rhs:
                if not symbolic and coeffs is coeff_sets[0]:
                    # own coefficients: missing rows that cancel are legitimate only if they cancel
                    return 's(x)h(x) != s.c.(C G_L(x)) at %s for s own coefficients' % [str(v) for v in tpt]
                return 's(x)h(x) != s.c.(C G_L(x)) at %s for coefficient vector %s' % ([str(v) for v in tpt], [str(c) for c in coeffs])
    return None


def impl_rcv(g_rows, ref, n, poly, int_ref=False):
    _, _, sc = mods()
    g = to_obj(g_rows, n, poly)
    refa = np.array([[float(a) for a in r] for r in ref]).reshape(len(ref), n)
    if int_ref and np.all(refa == np.round(refa)):
        refa = refa.astype(int)          # exponents held in an integer array (e.g. Signomial(np.array([[0], [1]]), c).alpha)
    return [Fraction(v) for v in sc.relative_coeff_vector(g, refa).tolist()]


def oracle_rcv(g_rows, ref, n, poly):
    got = impl_rcv(g_rows, ref, n, poly)
    tol = Fraction(1, 10 ** 8)
    for k, r in enumerate(ref):
        match = [c for a, c in g_rows if all(abs(x - y) < tol for x, y in zip(a, r))]
        if len(match) > 1:
            return None
        # ambiguity when two reference rows are close to the same exponent: first reference row wins
        want = match[0] if match else Fraction(0)
        firsts = [j for j, r2 in enumerate(ref) if match and all(abs(x - y) < tol for x, y in zip([a for a, c in g_rows if c == match[0]][0], r2))]
        if match and firsts and firsts[0] != k:
            continue
        if got[k] != want:
            return 'entry %d is %s, expected %s' % (k, got[k], want)
    return None


def jrows(rows):
    return [[[str(a) for a in r], str(c)] for r, c in rows]


def unj(rows):
    return [([Fraction(a) for a in r], Fraction(c)) for r, c in rows]


def gen_case(rng):
    n = rng.randint(1, 2)
    poly = rng.random() < 0.4
    s_rows = gen_sig_rows(rng, n, rng.randint(1, 3), poly)
    h_rows = gen_sig_rows(rng, n, rng.randint(1, 3), poly)
    symbolic = rng.random() < 0.5
    prod = []
    for a, _ in s_rows:
        for b, _ in h_rows:
            k = [x + y for x, y in zip(a, b)]
            if k not in prod:
                prod.append(k)
    extra = [r for r, _ in gen_sig_rows(rng, n, rng.randint(0, 2), poly) if r not in prod]
    Lr = prod + extra
    rng.shuffle(Lr)
    kind = rng.choice(['full', 'full', 'full', 'missing', 'cancel', 'zero_coeff'])
    opts = {'zero_values': symbolic and rng.random() < 0.4, 'stripped_row': None}
    if kind == 'missing' and len(Lr) > 1:
        gone = Lr.pop(rng.randrange(len(Lr)))
        if rng.random() < 0.5:
            opts['stripped_row'] = gone
    if kind == 'zero_coeff':
        # a multiplier given directly as (alpha, c) with an explicit zero coefficient: C must not depend on the values in s.c
        k0 = rng.randrange(len(s_rows))
        s_rows[k0] = (s_rows[k0][0], Fraction(0))
    if kind == 'cancel':
        # s = (y^a + 1), h = (y^a - 1): with numeric s_h the row a cancels in the product; with Variable coefficients (or any
        # surrogate for them) it does not, and a reference basis without a must be refused
        a = [Fraction(1)] * n
        s_rows = [(a, Fraction(1)), ([Fraction(0)] * n, Fraction(1))]
        h_rows = [(a, Fraction(1)), ([Fraction(0)] * n, Fraction(-1))]
        Lr = [[Fraction(2)] * n, [Fraction(0)] * n] + ([a] if rng.random() < 0.5 else [])
    L_rows = [(r, Fraction(1)) for r in Lr]
    return n, poly, symbolic, s_rows, h_rows, L_rows, kind, opts


def run(ctx):
    cases = []
    for _ in range(ctx.n(500, 5000)):
        n, poly, symbolic, s_rows, h_rows, L_rows, kind, opts = gen_case(ctx.rng)
        out = impl_mra(s_rows, h_rows, L_rows, n, poly, symbolic, opts)
        ctx.count('mra.kind', kind)
        ctx.count('mra.variables_hold_zero', bool(opts['zero_values']))
        ctx.count('mra.L_from_without_zeros', opts['stripped_row'] is not None)
        ctx.count('mra.mode', 'symbolic' if symbolic else 'numeric')
        ctx.count('mra.result', 'error' if out is None else 'matrix')
        if len(s_rows) >= 2 and len(h_rows) >= 2:
            ctx.nontrivial.add(vlib.sha([jrows(s_rows), jrows(h_rows), jrows(L_rows), symbolic]))
        jopts = {'zero_values': bool(opts['zero_values']), 'stripped_row': None if opts['stripped_row'] is None else [str(v) for v in opts['stripped_row']]}
        cases.append(({'n': n, 'poly': poly, 'symbolic': symbolic, 's': jrows(s_rows), 'h': jrows(h_rows), 'L': jrows(L_rows), 'opts': jopts},
                      cq((symbolic, Nat(n), s_rows, h_rows, L_rows)), cq(out), (s_rows, h_rows, L_rows, n, poly, symbolic), opts))
    ctx.evaluations += len(cases)
    ctx.suites['arguments_unchanged'] = {'cases': len(cases), 'failures': len(MUTATED)}
    if MUTATED:
        ctx.problem('oracle', 'property fails on the implementation: ' + MUTATED[0], inputs={'suite': 'arguments_unchanged', 'count': len(MUTATED)},
                    failing_input_found=True)
        del MUTATED[:]
    mism, err = vlib.run_suite_in_coq(ctx.pid, 'mra', HEADER, "fun x => let '(sy, n, s, h, L) := x in moment_reduction_array sy n s h L",
                                      'res_eqb', 'bool * nat * qsig * qsig * qsig', 'option (list (list Q))',
                                      [(c[1], c[2]) for c in cases], shard=200)
    ctx.suites['mra'] = {'cases': len(cases), 'mismatches': None if mism is None else len(mism)}
    if err:
        ctx.problem('correspondence', 'suite mra: ' + err)
    else:
        ctx.samples.append({'suite': 'mra', 'input': cases[len(cases) // 2][0], 'impl': cases[len(cases) // 2][2][:300]})
        for idx in mism[:3]:
            why = oracle_mra(*cases[idx][3], ctx.rng, cases[idx][4])
            model_out = vlib.coq_show(HEADER, "(fun x => let '(sy, n, s, h, L) := x in moment_reduction_array sy n s h L) %s" % cases[idx][1])
            ctx.problem('correspondence', 'suite mra: model and implementation disagree on %s; impl=%s model=%s; oracle: %s'
                        % (cases[idx][0], cases[idx][2][:400], model_out[:400], why or 'identity holds on this input'),
                        inputs={'suite': 'mra', 'input': cases[idx][0], 'property_failure': why}, failing_input_found=bool(why))
    gen_suite(ctx, 'mra_generated', "fun x => let '(sy, n, s, h, L) := x in gen_moment_reduction_array sy n s h L", 'res_eqb',
              'bool * nat * qsig * qsig * qsig', 'option (list (list Q))', cases, 200)
    why, _ = oracle_noise_exponents(ctx.rng)
    ctx.suites['noise_exponents'] = {'cases': 4, 'failure': why}
    ctx.evaluations += 4
    if why:
        ctx.problem('oracle', 'property fails on the implementation: ' + why, inputs={'suite': 'noise_exponents'}, failing_input_found=True)
    why, _ = oracle_tiny_merged()
    ctx.suites['tiny_merged_coefficient'] = {'cases': 2, 'failure': why}
    ctx.evaluations += 2
    if why:
        ctx.problem('oracle', 'property fails on the implementation: ' + why, inputs={'suite': 'tiny_merged'}, failing_input_found=True)
    why, _ = oracle_decimal(ctx.rng)
    ctx.suites['decimal_exponents'] = {'cases': 12, 'failure': why}
    ctx.evaluations += 12
    if why:
        ctx.problem('oracle', 'property fails on the implementation: ' + why, inputs={'suite': 'decimal_exponents'}, failing_input_found=True)
    # relative_coeff_vector with permuted and perturbed reference rows
    rc = []
    for _ in range(ctx.n(500, 5000)):
        n = ctx.rng.randint(1, 3)
        poly = ctx.rng.random() < 0.3
        big = ctx.rng.random() < 0.03
        if big:
            n = 3       # more terms than any blocking factor a vectorised implementation is likely to use
        g_rows = gen_sig_rows(ctx.rng, n, ctx.rng.randint(34, 44) if big else ctx.rng.randint(1, 4), poly)
        ctx.count('rcv.many_terms', big)
        ref = [list(a) for a, _ in g_rows] + [r for r, _ in gen_sig_rows(ctx.rng, n, ctx.rng.randint(0, 2), poly)]
        if ctx.rng.random() < 0.4 and len(ref) > 1:
            ref.pop(ctx.rng.randrange(len(ref)))
        ctx.rng.shuffle(ref)
        pert = ctx.rng.choice(['none', 'none', 'inside', 'outside', 'inside_all'])
        if pert == 'inside_all':
            # every coordinate of one row off by 2^-27 (< 1e-8) in the same direction: still the same row
            k = ctx.rng.randrange(len(ref))
            sg = ctx.rng.choice([1, -1])
            ref[k] = [v + sg * Fraction(1, 2 ** 27) for v in ref[k]]
        elif pert != 'none':
            k = ctx.rng.randrange(len(ref))
            j = ctx.rng.randrange(n)
            d = Fraction(1, 2 ** 29) if pert == 'inside' else Fraction(1, 2 ** 25)
            ref[k] = list(ref[k])
            ref[k][j] = ref[k][j] + ctx.rng.choice([d, -d])
        ctx.count('rcv.perturb', pert)
        int_ref = pert == 'none' and ctx.rng.random() < 0.4
        ctx.count('rcv.int_reference', int_ref)
        out = impl_rcv(g_rows, ref, n, poly, int_ref)
        rc.append(({'n': n, 'poly': poly, 'g': jrows(g_rows), 'ref': [[str(a) for a in r] for r in ref]},
                   cq((g_rows, ref)), cq(out), (g_rows, ref, n, poly)))
    ctx.evaluations += len(rc)
    mism, err = vlib.run_suite_in_coq(ctx.pid, 'rcv', HEADER, 'fun x => relative_coeff_vector (fst x) (snd x)', 'list_eqb Qeqb',
                                      'qsig * list qrow', 'list Q', [(c[1], c[2]) for c in rc], shard=250)
    ctx.suites['rcv'] = {'cases': len(rc), 'mismatches': None if mism is None else len(mism)}
    if err:
        ctx.problem('correspondence', 'suite rcv: ' + err)
    else:
        for idx in mism[:3]:
            why = oracle_rcv(*rc[idx][3])
            ctx.problem('correspondence', 'suite rcv: model and implementation disagree on %s; impl=%s; oracle: %s'
                        % (rc[idx][0], rc[idx][2][:300], why), inputs={'suite': 'rcv', 'input': rc[idx][0], 'property_failure': why},
                        failing_input_found=bool(why))


    gen_suite(ctx, 'rcv_generated', 'fun x => gen_relative_coeff_vector (fst x) (snd x)', 'list_eqb Qeqb', 'qsig * list qrow', 'list Q', rc, 250)


def oracle_decimal(rng):
    """exponents that are neither binary fractions nor 7-decimal numbers (thirds, sevenths): the reference basis is the one the library itself
    builds (the exponents of f + s*h, rounded by the constructor), and the identity s(x) h(x) = s.c . (C G_L(x)) is checked numerically for
    random coefficient vectors; h with ONE term and with several"""
    Signomial, Polynomial, sc = mods()
    for trial in range(12):
        n = rng.randint(1, 2)
        den = rng.choice([3, 7, 9])
        def row():
            return [rng.randint(-4, 6) / den for _ in range(n)]
        ms, mh = rng.randint(1, 3), rng.choice([1, 1, 2, 3])
        s_alpha = np.array([row() for _ in range(ms)])
        h_alpha = np.array([row() for _ in range(mh)])
        s = Signomial(s_alpha, np.array([float(rng.choice([1, -2, 3])) for _ in range(ms)]))
        h = Signomial(h_alpha, np.array([float(rng.choice([1, -1, 2, 5])) for _ in range(mh)]))
        if s.m != ms or h.m != mh:
            continue
        # L carries every exponent of s*h whatever the coefficients of s are: product with all-ones coefficients, plus one more term
        L = Signomial(s.alpha, np.ones(s.m)) * Signomial(h.alpha, np.abs(h.c)) + Signomial(np.array([row()]), np.array([1.0]))
        try:
            with warnings.catch_warnings():
                warnings.simplefilter('ignore')
                C = np.asarray(sc.moment_reduction_array(s, h, L), dtype=float)
        except RuntimeError:
            return ('moment_reduction_array raised although L was built from the product of the same exponents; s.alpha=%s h.alpha=%s'
                    % (s.alpha.tolist(), h.alpha.tolist())), None
        for _ in range(3):
            coeffs = np.array([float(rng.randint(-3, 3)) for _ in range(s.m)])
            x = np.array([rng.randint(-4, 4) / 4.0 for _ in range(n)])
            GL = np.exp(L.alpha @ x)
            lhs = float((coeffs @ np.exp(s.alpha @ x)) * h(x))
            rhs = float(coeffs @ (C @ GL))
            if abs(lhs - rhs) > 1e-9 * (1 + abs(lhs) + float(np.abs(coeffs) @ (np.abs(C) @ GL))):
                return ('s(x) h(x) = %r but s.c . (C G_L(x)) = %r at x = %s for the coefficient vector %s; s.alpha=%s, h.alpha=%s (h has %d term(s)), '
                        'C=%s' % (lhs, rhs, x.tolist(), coeffs.tolist(), s.alpha.tolist(), h.alpha.tolist(), h.m, C.tolist())), None
    return None, None


def oracle_noise_exponents(rng):
    """exponents with noise beyond the 7th decimal (1e-9, -2e-9: rounding produces +0.0 and -0.0, 0.5 and 0.5000000004): rows that denote the same
    monomial are ONE row, their coefficients add, relative_coeff_vector places the sum, and the moment-reduction identity holds"""
    Signomial, Polynomial, sc = mods()
    for eps_h, eps_s in ((-1e-9, -2e-9), (1e-9, -2e-9), (-1e-9, 3e-9), (-4e-10, -4e-10)):
        h = Signomial(np.array([[1.0, 0.0], [1.0, eps_h], [0.0, 1.0]]), np.array([2.0, 3.0, 1.0]))
        s = Signomial(np.array([[0.0, eps_s], [1.0, 0.0], [0.5, 0.5 + eps_h]]), np.array([1.0, 1.0, 1.0]))
        if h.m != 2 or sorted(float(v) for v in h.c) != [1.0, 5.0]:
            return ('Signomial with exponent rows (1, 0), (1, %g), (0, 1) and coefficients 2, 3, 1 has %d rows %s with coefficients %s; the first two rows '
                    'denote one monomial (coefficient 5)' % (eps_h, h.m, h.alpha.tolist(), np.asarray(h.c).tolist())), None
        ref = np.array([[0.0, 1.0], [1.0, 0.0], [2.0, 2.0]])
        rcv = np.asarray(sc.relative_coeff_vector(h, ref), dtype=float).tolist()
        if rcv != [1.0, 5.0, 0.0]:
            return 'relative_coeff_vector of 5*exp(x0) + exp(x1) (given with a repeated row up to 1e-9) against rows (0,1),(1,0),(2,2) is %s' % rcv, None
        L = Signomial(s.alpha, np.ones(s.m)) * Signomial(h.alpha, np.abs(h.c)) + Signomial(np.array([[3.0, 3.0]]), np.array([1.0]))
        try:
            with warnings.catch_warnings():
                warnings.simplefilter('ignore')
                C = np.asarray(sc.moment_reduction_array(s, h, L), dtype=float)
        except RuntimeError as e:
            return 'moment_reduction_array raised %r for exponents with noise beyond the 7th decimal (eps %g, %g)' % (e, eps_h, eps_s), None
        for _ in range(3):
            coeffs = np.array([float(rng.randint(-3, 3)) for _ in range(s.m)])
            x = np.array([rng.randint(-4, 4) / 4.0 for _ in range(2)])
            GL = np.exp(L.alpha @ x)
            lhs = float((coeffs @ np.exp(s.alpha @ x)) * h(x))
            rhs = float(coeffs @ (C @ GL))
            if abs(lhs - rhs) > 1e-6 * (1 + abs(lhs)):
                return ('s(x) h(x) = %r but s.c . (C G_L(x)) = %r at x = %s for the coefficient vector %s; exponents carry noise %g / %g beyond the 7th decimal; C=%s'
                        % (lhs, rhs, x.tolist(), coeffs.tolist(), eps_h, eps_s, C.tolist())), None
    # polynomials whose float exponents sit a hair BELOW an integer (0.3 / 0.1 = 2.9999999999999996): the monomial is x^3, in every argument
    three = 0.3 / 0.1
    hp = Polynomial(np.array([[three, 1.0], [2.0, 1.0], [0.0, 0.0]]), np.array([3.0, 2.0, 1.0]))
    refp = np.array([[0.0, 0.0], [1.0, 1.0], [2.0, 1.0], [3.0, 1.0]])
    rcv = np.asarray(sc.relative_coeff_vector(hp, refp), dtype=float).tolist()
    if rcv != [1.0, 0.0, 2.0, 3.0]:
        return ('relative_coeff_vector of 3 x0^3 x1 + 2 x0^2 x1 + 1 (the exponent 3 given as the float 0.3/0.1) against rows (0,0),(1,1),(2,1),(3,1) is %s; '
                'expected [1, 0, 2, 3]' % rcv), None
    sp_ = Polynomial(np.array([[1.0, 0.0], [0.0, 6.0 * 0.1 / 0.2 - 2.0]]), np.array([1.0, 1.0]))      # x0 + x1 (exponent 1 computed in floating point)
    Lp = Polynomial(sp_.alpha, np.ones(sp_.m)) * Polynomial(hp.alpha, np.abs(hp.c)) + Polynomial(np.array([[5.0, 5.0]]), np.array([1.0]))
    try:
        Cp = np.asarray(sc.moment_reduction_array(sp_, hp, Lp), dtype=float)
    except RuntimeError as e:
        return 'moment_reduction_array raised %r for polynomials whose exponents were computed in floating point' % (e,), None
    for _ in range(3):
        coeffs = np.array([float(rng.randint(-3, 3)) for _ in range(sp_.m)])
        xv = np.array([rng.choice([-1.5, -0.5, 0.5, 2.0]), rng.choice([-2.0, 0.5, 1.5])])
        GL = np.prod(np.power(xv, Lp.alpha), axis=1)
        lhs = float((coeffs @ np.prod(np.power(xv, sp_.alpha), axis=1)) * (3 * xv[0] ** 3 * xv[1] + 2 * xv[0] ** 2 * xv[1] + 1))
        rhs = float(coeffs @ (Cp @ GL))
        if abs(lhs - rhs) > 1e-8 * (1 + abs(lhs)):
            return ('polynomials with exponents computed in floating point (0.3/0.1 for 3): s(x) h(x) = %r but s.c . (C G_L(x)) = %r at x = %s for the coefficient vector %s'
                    % (lhs, rhs, xv.tolist(), coeffs.tolist())), None
    return None, None


def oracle_tiny_merged():
    """an exponent of s*h produced by two (s-term, h-term) pairs whose coefficients nearly cancel (merged coefficient 1e-13, not zero) is an exponent of
    s*h: when L lacks it moment_reduction_array must raise, and when L has it the identity holds for every other coefficient vector of s"""
    Signomial, Polynomial, sc = mods()
    eps = 1e-13
    for poly in (False, True):
        cls = Polynomial if poly else Signomial
        s = cls(np.array([[0.0], [1.0]]), np.array([1.0, 1.0]))
        h = cls(np.array([[0.0], [1.0], [2.0]]), np.array([1.0, eps - 1.0, 1.0]))
        Lmiss = cls(np.array([[0.0], [3.0]]), np.array([1.0, 1.0]))
        Lfull = cls(np.array([[0.0], [1.0], [2.0], [3.0]]), np.ones(4))
        raised = False
        try:
            Cm = np.asarray(sc.moment_reduction_array(s, h, Lmiss), dtype=float)
        except RuntimeError:
            raised = True
        if not raised:
            return ('moment_reduction_array(s, h, L) returned C=%s without error for %s s = 1 + g1, h = 1 + (1e-13 - 1) g1 + g2 (g_k the monomial with exponent k), '
                    'L with exponents {0, 3}: exponents 1 and 2 of s*h (coefficient 1e-13 under s.c = (1, 1), and 1 / -1 under s.c = (1, 0)) are not in L'
                    % (Cm.tolist(), 'Polynomial' if poly else 'Signomial')), None
        C = np.asarray(sc.moment_reduction_array(s, h, Lfull), dtype=float)
        for coeffs in ([1.0, 0.0], [0.0, 1.0], [2.0, -3.0]):
            coeffs = np.array(coeffs)
            for xv in (0.5, 1.25):
                g = (lambda k: xv ** k) if poly else (lambda k: float(np.exp(k * xv)))
                lhs = (coeffs[0] + coeffs[1] * g(1)) * (1 + (eps - 1.0) * g(1) + g(2))
                rhs = float(coeffs @ (C @ np.array([g(0), g(1), g(2), g(3)])))
                if abs(lhs - rhs) > 1e-9 * (1 + abs(lhs)):
                    return ('s(x) h(x) = %r but s.c . (C G_L(x)) = %r at x = %r for s.c = %s, h = 1 + (1e-13 - 1) g1 + g2, L with exponents 0..3; C=%s'
                            % (lhs, rhs, xv, coeffs.tolist(), C.tolist())), None
    return None, None


def search(ctx):
    for _ in range(1500):
        n, poly, symbolic, s_rows, h_rows, L_rows, kind, opts = gen_case(ctx.rng)
        why = oracle_mra(s_rows, h_rows, L_rows, n, poly, symbolic, ctx.rng, opts)
        if why:
            jopts = {'zero_values': bool(opts['zero_values']), 'stripped_row': None if opts['stripped_row'] is None else [str(v) for v in opts['stripped_row']]}
            return {'suite': 'mra', 'input': {'n': n, 'poly': poly, 'symbolic': symbolic, 's': jrows(s_rows), 'h': jrows(h_rows), 'L': jrows(L_rows), 'opts': jopts},
                    'property_failure': why}
        g_rows = gen_sig_rows(ctx.rng, n, ctx.rng.randint(1, 4), poly)
        ref = [list(a) for a, _ in g_rows]
        ctx.rng.shuffle(ref)
        why = oracle_rcv(g_rows, ref, n, poly)
        if why:
            return {'suite': 'rcv', 'input': {'n': n, 'poly': poly, 'g': jrows(g_rows), 'ref': [[str(a) for a in r] for r in ref]}, 'property_failure': why}
    return None


def replay(payload):
    import random
    inp = payload.get('input') or {}
    s, x = inp.get('suite'), inp.get('input')
    if s == 'mra':
        jo = x.get('opts') or {}
        opts = {'zero_values': jo.get('zero_values', False), 'stripped_row': None if jo.get('stripped_row') is None else [Fraction(v) for v in jo['stripped_row']]}
        why = oracle_mra(unj(x['s']), unj(x['h']), unj(x['L']), x['n'], x['poly'], x['symbolic'], random.Random(0), opts)
    elif s == 'rcv':
        why = oracle_rcv(unj(x['g']), [[Fraction(a) for a in r] for r in x['ref']], x['n'], x['poly'])
    else:
        print('replay names a broken theorem/correspondence, no concrete input: ' + str(payload.get('detail'))[:500])
        return 1
    print('replay %s: %s' % (s, why or 'property holds'))
    return 1 if why else 0
