"""C03 — sig_relaxation gives a valid lower bound; primal and dual forms agree.
Tie: Model/RelaxSig.v (a composition of the Signomial, SymSig and SymCorr models) vs sage_sigs.sig_primal / sig_dual:
the SAGE constraint's (alpha, c), the normalisation vector a, the objective vector.  The SAGE rows themselves are tied
in C01/C02.
Oracle: solve both forms with ECOS; sampled points of X bound the value from above; primal <= dual; a dual problem over
a non-empty X is never infeasible; primal infeasible means -inf.  Agreement of the two values is observed (labelled test)."""
import math
import warnings
from fractions import Fraction

import numpy as np

from harness import vlib
from harness.vlib import Nat, cq, Raw
from harness.props import c12, c13, sagecorr

RULE = ('case = (f, X, form, ell, mod_supp): f with half-integer exponents, 1-5 terms, n<=2, integer coefficients, with/without constant '
        'term; X in {None, box, halfspace, ball, lifted}; ell in {0,1,2}; non-trivial = f with a negative coefficient and >=3 terms; '
        'distinct by instance hash')
TRUSTED = ['correspondence harness harness/props/c03.py', 'ORACLE: ECOS (values, statuses)',
           'strong duality (primal = dual when both finite) is NOT proved: it is observed by the differential run and labelled a test',
           'dual-form theorems are stated under two containment checks (rows of t^ell and of f*t^ell occur among the modulated '
           'Lagrangian\'s rows) that the model computes; the harness records that they hold on every generated instance']
ASSUMPTIONS = ['Model/RelaxSig.v composes the hand-written models of the called functions; tied by correspondence only',
               '"never reported infeasible" depends on the solver; the theorem gives a feasible point for every x in X']
HEADER = ('From Coq Require Import List Bool Arith ZArith QArith.\n'
          'From SageVerif Require Import Model.Expr Model.Signomial Model.SymSig Model.SolverForms Model.SymCorr Model.RelaxSig Base.Corr.\n'
          'Import ListNotations.\n'
          'Definition model_primal (x : nat * qsig * nat * option (list qrow)) :=\n'
          "  let '(n, f, ell, ms) := x in sig_primal_m n f ell 0%Z ms.\n"
          'Definition model_dual (x : nat * qsig * nat * option (list qrow)) :=\n'
          "  let '(n, f, ell, ms) := x in let '(L, a, obj) := sig_dual_m n f ell 0%Z ms in\n"
          '  let t := modulator n (q_without_zeros n f) 0%Z ms ell in\n'
          '  (L, a, obj, rows_contained t (map fst L) && rows_contained (q_mul n (q_without_zeros n f) t) (map fst L)).\n'
          'Definition ssig_eqb2 (f g : ssig) : bool := ssig_eqb (Some f) (Some g).\n'
          'Definition dual_eqb := pair_eqb (pair_eqb (pair_eqb ssig_eqb2 (list_eqb Qeqb)) (list_eqb Qeqb)) Bool.eqb.')


def gen_f(rng, n):
    m = rng.randint(1, 5)
    rows = []
    for _ in range(m):
        a = [Fraction(rng.choice([0, 1, -1, 2, 3, -2, 1]), rng.choice([1, 1, 2])) for _ in range(n)]
        if a in [r for r, _ in rows]:
            continue
        rows.append((a, Fraction(rng.choice([1, 2, 3, -1, -2, 4, 5, -3]))))
    if rng.random() < 0.6 and [Fraction(0)] * n not in [r for r, _ in rows]:
        rows.append(([Fraction(0)] * n, Fraction(rng.choice([1, -1, 2, 0]))))
    return rows


def sig_obj(rows, n):
    from sageopt.symbolic.signomials import Signomial
    return Signomial(np.array([[float(x) for x in a] for a, _ in rows]).reshape(len(rows), n), np.array([float(c) for _, c in rows]))


def canon_cells(con_c, gid):
    from sageopt.coniclifts.base import Expression
    cells = []
    for se in Expression(con_c).flat:
        d = {}
        for at, co in se.atoms_to_coeffs.items():
            if int(at.id) != gid:
                return None
            d[0] = d.get(0, Fraction(0)) + Fraction(float(co))
        cells.append((d, Fraction(float(se.offset))))
    return cells


def build(rng):
    from sageopt.relaxations import sage_sigs as ss
    n = rng.randint(1, 2)
    rows = gen_f(rng, n)
    f = sig_obj(rows, n)
    frows = c12.canon(f)
    kind = rng.choice(['none', 'none', 'box', 'halfspace', 'ball', 'lifted', 'eq_box', 'mixed', 'expcone'])
    X, _ = sagecorr.make_domain(rng, n, kind)
    ell = rng.choice([0, 0, 1, 1, 2])
    ms = None
    if rng.random() < 0.25:
        ms = [[Fraction(0)] * n] + [[Fraction(rng.choice([0, 1, -1]), rng.choice([1, 2])) for _ in range(n)] for _ in range(rng.randint(1, 2))]
        ms = [list(x) for x in {tuple(r) for r in ms}]
    msnp = np.array([[float(x) for x in r] for r in ms]).reshape(len(ms), n) if ms is not None else None
    return n, rows, f, frows, kind, X, ell, ms, msnp


def run(ctx):
    from sageopt.relaxations import sage_sigs as ss
    import sageopt.coniclifts as cl
    pc, dc = [], []
    nprob = ctx.n(140, 1400)
    for k in range(nprob):
        n, rows, f, frows, kind, X, ell, ms, msnp = build(ctx.rng)
        if len(frows) ** (ell + 1) > 120:
            continue
        js = {'n': n, 'f': [[[str(x) for x in a], str(c)] for a, c in rows], 'domain': kind, 'ell': ell, 'mod_supp': None if ms is None else [[str(x) for x in r] for r in ms]}
        with warnings.catch_warnings():
            warnings.simplefilter('ignore')
            try:
                if k % 2 == 0:      # through the public entry point, every option passed explicitly
                    kw = {'ell': ell} if msnp is None else {'ell': ell, 'mod_supp': msnp}
                    pp = ss.sig_relaxation(f, X, 'primal', **kw)
                    dp = ss.sig_relaxation(f, X, 'dual', **kw)
                    ctx.count('entry', 'sig_relaxation')
                else:
                    pp = ss.sig_primal(f, ell, X, msnp)
                    dp = ss.sig_dual(f, ell, X, msnp)
                    ctx.count('entry', 'sig_primal/sig_dual')
            except RuntimeError as e:
                ctx.count('builder_error', str(e)[:40])
                continue
        ctx.count('domain', kind)
        ctx.count('ell', ell)
        if any(c < 0 for _, c in rows) and len(rows) >= 3:
            ctx.nontrivial.add(vlib.sha(js))
        cin = cq((Nat(n), frows, Nat(ell), vlib.Some(ms) if ms is not None else None))
        # primal: SAGE constraint (alpha, c)
        pcon = pp.constraints[0]
        gamma = [v for v in pp.all_variables if v.name == 'gamma'][0]
        gid = int(gamma.scalar_variable_ids[0])
        cells = canon_cells(pcon.c, gid)
        if cells is None:
            ctx.problem('correspondence', 'primal SAGE coefficient vector mentions a variable other than gamma', inputs=js)
            continue
        prow = [([Fraction(int(round(a * c12.GRID)), c12.GRID) for a in r], cell) for r, cell in zip(np.asarray(pcon.alpha, dtype=float).tolist(), cells)]
        pc.append((js, cin, c13.rows_coq(prow)))
        # dual: alpha, c cells, a, obj
        dcon = dp.constraints[0]
        gam2 = None
        dcells = canon_cells(dcon.c, int([a_ for se in cl.Expression(dcon.c).flat for a_ in se.atoms_to_coeffs][0].id)) if any(len(se.atoms_to_coeffs) for se in cl.Expression(dcon.c).flat) else canon_cells(dcon.c, -1)
        drow = [([Fraction(int(round(a * c12.GRID)), c12.GRID) for a in r], cell) for r, cell in zip(np.asarray(dcon.alpha, dtype=float).tolist(), dcells)]
        v = dcon.v
        vids = [int(i) for i in v.scalar_variable_ids]
        eqc = dp.constraints[1]
        cell = list(eqc.expr.flat)[0]
        amap = {int(at.id): Fraction(float(co)) for at, co in cell.atoms_to_coeffs.items()}
        a = [amap.get(i, Fraction(0)) for i in vids]
        vm = dp.variable_map[v.name].ravel().tolist()
        obj = [Fraction(float(dp.c[col])) if col >= 0 else Fraction(0) for col in vm]
        dc.append((js, cin, '(%s, %s, %s, true)' % (c13.rows_coq(drow), cq(a), cq(obj))))
        # oracle: solve both, check the bounds
        if k % 3 == 0:
            why = oracle_values(ctx.rng, f, n, kind, X, pp, dp)
            ctx.count('oracle', 'solved_pair')
            if why:
                ctx.problem('oracle', 'property fails on the implementation: ' + why, inputs=js, failing_input_found=True)
                break
    from harness.props import lattice
    if True:
        import sageopt as so
        from sageopt.relaxations import sage_sigs as ss_
        y_ = so.standard_sig_monomials(2)
        f_ = y_[0] ** 2 + y_[1] ** 2 - y_[0] * y_[1] + y_[0] ** -1
        bl = [('sig_relaxation (ell=%d)' % l_, fm, (lambda fm=fm, l_=l_: ss_.sig_relaxation(f_, form=fm, ell=l_))) for fm in ('primal', 'dual') for l_ in (0, 1)]
        why_s, ns_ = lattice.scripted_no_certificate(bl, ctx.rng)
        ctx.evaluations += ns_
        ctx.suites['scripted_solver_outcomes'] = {'cases': ns_, 'failure': why_s}
        if why_s:
            ctx.problem('oracle', 'property fails on the implementation: ' + why_s, inputs={'suite': 'scripted_solver_outcomes'}, failing_input_found=True)
    why, nsolves = lattice.lattice_c03(ctx)
    ctx.evaluations += nsolves
    ctx.suites['option_level_lattice'] = {'solves': nsolves, 'failure': why}
    if why:
        ctx.problem('oracle', 'property fails on the implementation: ' + why, inputs={'suite': 'option_level_lattice'}, failing_input_found=True)
    why = oracle_unbounded()
    ctx.suites['unbounded_badly_scaled'] = {'cases': 2, 'failure': why}
    ctx.evaluations += 2
    if why:
        ctx.problem('oracle', 'property fails on the implementation: ' + why, inputs={'suite': 'unbounded_badly_scaled'}, failing_input_found=True)
    why = oracle_hard_instances()
    ctx.suites['hard_instances'] = {'cases': 4, 'failure': why}
    ctx.evaluations += 4
    if why:
        ctx.problem('oracle', 'property fails on the implementation: ' + why, inputs={'suite': 'hard_instances'}, failing_input_found=True)
    for name, cases, model, eqb, tout in (('sig_primal', pc, 'model_primal', 'ssig_eqb2', 'ssig'),
                                          ('sig_dual', dc, 'model_dual', 'dual_eqb', 'ssig * list Q * list Q * bool')):
        ctx.evaluations += len(cases)
        mism, err = vlib.run_suite_in_coq(ctx.pid, name, HEADER, model, eqb, 'nat * qsig * nat * option (list qrow)', tout,
                                          [(c[1], c[2]) for c in cases], shard=60)
        ctx.suites[name] = {'cases': len(cases), 'mismatches': None if mism is None else len(mism)}
        if err:
            ctx.problem('correspondence', 'suite %s: %s' % (name, err))
            continue
        if cases:
            ctx.samples.append({'suite': name, 'instance': cases[len(cases) // 2][0]})
        for idx in mism[:3]:
            model_out = vlib.coq_show(HEADER, '%s %s' % (model, cases[idx][1]))
            ctx.problem('correspondence', 'suite %s: model and implementation disagree on %s; impl=%s model=%s'
                        % (name, cases[idx][0], cases[idx][2][:1500], model_out[:1500]), inputs=cases[idx][0], failing_input_found=False)


def oracle_values(rng, f, n, kind, X, pp, dp):
    with warnings.catch_warnings():
        warnings.simplefilter('ignore')
        ps = pp.solve(verbose=False)
        ds = dp.solve(verbose=False)
    ub = math.inf
    for _ in range(200):
        x, w = sagecorr.sample_domain_point(rng, n, kind, X)
        if x is None:
            break
        ub = min(ub, float(f(np.array(x))))
    for name, (st, val) in (('primal', ps), ('dual', ds)):
        if st == 'solved' and math.isfinite(val) and math.isfinite(ub) and val > ub + 1e-4 * (1 + abs(ub)):
            return '%s value %r exceeds f at a sampled point of X (%r)' % (name, val, ub)
        if st == 'solved' and val == math.inf and name == 'primal':
            return 'primal SAGE relaxation reported +inf'
    if ds[0] == 'solved' and ds[1] == math.inf:
        return 'dual-form problem over a non-empty X reported infeasible'
    if ps[0] == 'solved' and ds[0] == 'solved' and math.isfinite(ps[1]) and math.isfinite(ds[1]) and ps[1] > ds[1] + 1e-4 * (1 + abs(ds[1])):
        return 'primal value %r exceeds dual value %r' % (ps[1], ds[1])
    # "they agree when both are finite" (strong duality: observed, not proved; both values come from the same solver)
    if ps[0] == 'solved' and ds[0] == 'solved' and math.isfinite(ps[1]) and math.isfinite(ds[1]) and abs(ps[1] - ds[1]) > 1e-3 * (1 + abs(ds[1])):
        return 'primal value %r and dual value %r are both finite and differ' % (ps[1], ds[1])
    return None


def oracle_unbounded():
    """a badly scaled signomial that is unbounded below: whatever accuracy the solver reaches, neither form may report a
    value above -inf ... + inf would be a 'lower bound' exceeding every f(x)"""
    import sageopt as so
    from sageopt.relaxations import sage_sigs as ss
    f = so.Signomial(np.array([[-2.0], [-0.5], [-2.9]]), np.array([0.1, 1e5, -0.1]))
    with warnings.catch_warnings():
        warnings.simplefilter('ignore')
        for form in ('primal', 'dual'):
            st, val = ss.sig_relaxation(f, form=form).solve(verbose=False)
            if st in ('solved', 'inaccurate') and isinstance(val, float) and val > -1e6:
                fx = float(f(np.array([-12.0])))
                return ('%s-form relaxation of 0.1e^{-2x} + 1e5 e^{-x/2} - 0.1e^{-2.9x} (unbounded below: f(-12) = %.3g) reports (%s, %r)'
                        % (form, fx, st, val))
    return None


def oracle_hard_instances():
    """(a) a conditional level-1 relaxation on which ECOS struggles (MCW2019 problem 1): whatever status is reported, a reported
    finite value is a lower bound; (b) the kernel-basis option does not turn a feasible primal problem into an infeasible one"""
    import sageopt as so
    import sageopt.coniclifts as cl
    import sageopt.coniclifts.constraints.set_membership.sage_cones as sc
    from sageopt.relaxations import sage_sigs as ss
    with warnings.catch_warnings():
        warnings.simplefilter('ignore')
        y = so.standard_sig_monomials(3)
        f = 0.5 * y[0] * y[1] ** -1 - y[0] - 5 * y[1] ** -1
        gts = [100 - y[1] * y[2] ** -1 - y[1] - 0.05 * y[0] * y[2], y[0] - 70, y[1] - 1, y[2] - 0.5, 150 - y[0], 30 - y[1], 21 - y[2]]
        X = ss.infer_domain(f, gts, [])
        rs = np.random.RandomState(0)
        pts = rs.uniform(np.log([70, 1, 0.5]), np.log([150, 30, 21]), size=(40000, 3)).T
        ok = np.all(np.array([g(pts) for g in gts]) >= 0, axis=0)
        fmin = float(np.min(f(pts[:, ok])))
        vals = {}
        for form in ('primal', 'dual'):
            vals[form] = ss.sig_relaxation(f, X, form=form, ell=1).solve(verbose=False)
            st, val = vals[form]
            if st in ('solved', 'inaccurate') and isinstance(val, float) and not math.isnan(val) and val > fmin + 1e-3 * (1 + abs(fmin)):
                return ('%s-form level-1 relaxation of MCW2019 problem 1 over its inferred domain reports (%s, %r); f = %r at a point of X'
                        % (form, st, val, fmin))
        saved = dict(sc.SETTINGS)
        try:
            y2 = so.standard_sig_monomials(2)
            g2 = y2[0] ** 2 + y2[1] ** 2 - y2[0] - y2[1]
            ref = ss.sig_relaxation(g2, form='dual').solve(verbose=False)
            cl.kernel_basis_age_witnesses(True)
            try:
                got = ss.sig_relaxation(g2, form='primal').solve(verbose=False)
            except RuntimeError as e:
                got = ('refused at construction', ' '.join(str(e).split())[:60])
        finally:
            sc.SETTINGS.clear()
            sc.SETTINGS.update(saved)
        if ref[0] == 'solved' and not (got[0] == 'solved' and isinstance(got[1], float) and abs(got[1] - ref[1]) <= 1e-4 * (1 + abs(ref[1]))):
            return ('exp(2x)+exp(2y)-exp(x)-exp(y): dual value %r; the primal form with kernel_basis=True gives %r' % (ref[1], got))
    return None


def search(ctx):
    from sageopt.relaxations import sage_sigs as ss
    why = oracle_unbounded() or oracle_hard_instances()
    if why:
        return {'suite': 'unbounded_badly_scaled', 'property_failure': why}
    for _ in range(60):
        n, rows, f, frows, kind, X, ell, ms, msnp = build(ctx.rng)
        if len(frows) ** (ell + 1) > 60:
            continue
        with warnings.catch_warnings():
            warnings.simplefilter('ignore')
            try:
                pp = ss.sig_primal(f, ell, X, msnp)
                dp = ss.sig_dual(f, ell, X, msnp)
            except RuntimeError:
                continue
        why = oracle_values(ctx.rng, f, n, kind, X, pp, dp)
        if why:
            return {'instance': {'f': str(rows), 'domain': kind, 'ell': ell}, 'property_failure': why}
    return None


def replay(payload):
    ctx = vlib.Ctx('C03', 'quick', int(payload.get('seed', 0)))
    found = search(ctx)
    print(found or 'property holds on the regenerated instances')
    return 1 if found else 0
