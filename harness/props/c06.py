"""C06 — SAGE is exact on one-negative-term signomials; bounds ignore reparametrisation.
Theorems (Props/C06): certificates are sound, invariant under positive scaling, monotone, carried along by translations
of x, by linear changes of variables and by permutations of terms; circuit signomials have a certificate whenever
beta <= the circuit number (weighted AM/GM), and conversely under the solvability hypothesis; singleton / Farkas covers
are trivial.  The converse in general ("nonnegative on X implies a certificate exists") and the w.l.o.g. of the automatic
covers need strong duality: assumed (named) and probed here.
Oracle (implementation): circuit signomials against the closed-form circuit number; one-negative-term signomials on boxes
against a grid enclosure of the minimum; metamorphic runs (permute / translate / linear map / a*f+k / ell+1 / shrink X)."""
import itertools
import math
import warnings
from fractions import Fraction

import numpy as np

from harness import vlib
from harness.props import c03, sagecorr

RULE = ('case = signomial with at most one negative coefficient (circuit signomials with affinely independent outer exponents, and random '
        'ones) together with its transformed copies; non-trivial = instance with a negative term and >= 3 terms; distinct by instance hash')
TRUSTED = ['ORACLE: ECOS (values compared with tolerance 1e-5 relative)',
           'ASSUME-AGE-completeness: a signomial with one negative term that is nonnegative on X has an X-AGE certificate (strong duality of '
           'relative-entropy programs; Murray-Chandrasekaran-Wierman) - assumed, probed by the closed-form and enclosure checks',
           'ASSUME-MCW-presolve: automatic covers lose nothing for X = R^n']
ASSUMPTIONS = ['the theorems give each invariance as a certificate transformation (one direction each; the inverse transformation gives the other)',
               'circuit_exact assumes existence of the balancing point (true for affinely independent exponents; that linear-algebra fact is not proved)']


def sig(rows, n):
    return c03.sig_obj(rows, n)


def solve_bound(f, X=None, ell=0, form='primal'):
    from sageopt.relaxations import sage_sigs as ss
    with warnings.catch_warnings():
        warnings.simplefilter('ignore')
        return ss.sig_relaxation(f, X, form=form, ell=ell).solve(verbose=False)


def close(a, b, tol=1e-5):
    if a == b:
        return True
    if not (math.isfinite(a) and math.isfinite(b)):
        return False
    return abs(a - b) <= tol * (1 + abs(a) + abs(b))


def gen_circuit(rng, n):
    """outer exponents = simplex vertices (affinely independent), inner = convex combination; returns rows, Theta data"""
    verts = [[Fraction(0)] * n] + [[Fraction(rng.choice([2, 4])) if i == j else Fraction(0) for j in range(n)] for i in range(n)]
    lam = [Fraction(rng.randint(1, 3)) for _ in verts]
    tot = sum(lam)
    lam = [l / tot for l in lam]
    inner = [sum(l * v[j] for l, v in zip(lam, verts)) for j in range(n)]
    cs = [Fraction(rng.choice([1, 2, 3, 4])) for _ in verts]
    theta = math.prod((float(c) / float(l)) ** float(l) for c, l in zip(cs, lam))
    return verts, cs, lam, inner, theta


def oracle_circuit(rng):
    n = rng.randint(1, 2)
    verts, cs, lam, inner, theta = gen_circuit(rng, n)
    # half-integer grid for the inner exponent is not guaranteed: use floats directly
    from sageopt.symbolic.signomials import Signomial
    from sageopt.relaxations import sage_sigs as ss
    alpha = np.array([[float(x) for x in v] for v in verts] + [[float(x) for x in inner]])
    for beta in (0.5 * theta, 0.999 * theta, 1.001 * theta, 1.5 * theta):
        c = np.array([float(x) for x in cs] + [-beta])
        f = Signomial(alpha, c)
        with warnings.catch_warnings():
            warnings.simplefilter('ignore')
            st, val = ss.sage_feasibility(f).solve(verbose=False)
        feasible = (st == 'solved' and val > -1)
        if beta < theta * (1 - 5e-3) and not feasible:
            return 'circuit signomial with beta=%g < circuit number %g: sage_feasibility reports %r' % (beta, theta, (st, val))
        if beta > theta * (1 + 5e-3) and feasible:
            return 'circuit signomial with beta=%g > circuit number %g is reported SAGE-feasible (it is negative somewhere)' % (beta, theta)
    # level-0 bound of posynomial + constant - beta*inner = closed form: min f = c0 - ... ; check with constant vertex
    beta = 0.7 * theta
    c = np.array([float(x) for x in cs] + [-beta])
    f = Signomial(alpha, c)
    st, val = solve_bound(f)
    # exact infimum by one-dimensional reasoning is not available in general; use a fine sample as upper bound and
    # the certificate theorem as lower bound: val must be <= min sample and >= min sample - small gap for circuits
    pts = [np.array(p) for p in itertools.product(np.linspace(-3, 3, 61), repeat=n)]
    ub = min(float(f(p)) for p in pts)
    if st == 'solved' and math.isfinite(val):
        if val > ub + 1e-5 * (1 + abs(ub)):
            return 'level-0 bound %r exceeds f at a sampled point (%r)' % (val, ub)
        if val < ub - 2e-2 * (1 + abs(ub)):
            return 'level-0 bound %r of a circuit signomial (posynomial + constant with one negative inner term) is not tight: sampled minimum %r' % (val, ub)
    return None


def oracle_metamorphic(rng):
    n = rng.randint(1, 2)
    # bounded-below f: positive vertices, one or two negative midpoints
    verts = [[Fraction(0)] * n]
    while len(verts) < 3:
        a = [Fraction(rng.choice([0, 2, -2, 4])) for _ in range(n)]
        if a not in verts:
            verts.append(a)
    rows = [(a, Fraction(rng.choice([1, 2, 3]))) for a in verts]
    p, q = rng.sample(verts, 2)
    mid = [(x + y) / 2 for x, y in zip(p, q)]
    if mid not in verts:
        rows.append((mid, Fraction(rng.choice([-1, -2]))))
    f = sig(rows, n)
    st, v0 = solve_bound(f)
    if st != 'solved' or not math.isfinite(v0):
        return None, 0
    checks = 0
    # permutation of terms
    perm = list(rows)
    rng.shuffle(perm)
    st, v = solve_bound(sig(perm, n))
    checks += 1
    if st == 'solved' and not close(v, v0):
        return 'bound changes under a permutation of the terms: %r vs %r' % (v, v0), checks
    # translation x -> x + x0
    x0 = [rng.choice([-1.0, 0.5, 1.0]) for _ in range(n)]
    g = f.shift_coordinates(np.array(x0))
    st, v = solve_bound(g)
    checks += 1
    if st == 'solved' and not close(v, v0, 1e-4):
        return 'bound changes under translation by %s: %r vs %r' % (x0, v, v0), checks
    # invertible linear change of variables: exponents alpha -> alpha M
    M = np.array([[1.0, 1.0], [0.0, 1.0]])[:n, :n] if n == 2 else np.array([[2.0]])
    from sageopt.symbolic.signomials import Signomial
    g = Signomial(np.asarray(f.alpha) @ M, np.asarray(f.c))
    st, v = solve_bound(g)
    checks += 1
    if st == 'solved' and not close(v, v0, 1e-4):
        return 'bound changes under an invertible linear change of variables: %r vs %r' % (v, v0), checks
    # a*f + k
    a, k = float(rng.choice([2, 3, 0.5])), float(rng.choice([-1, 2]))
    st, v = solve_bound(a * f + k)
    checks += 1
    if st == 'solved' and not close(v, a * v0 + k, 1e-4):
        return 'bound(a f + k) = %r but a bound(f) + k = %r (a=%g, k=%g)' % (v, a * v0 + k, a, k), checks
    # ell + 1 does not decrease the bound
    st, v = solve_bound(f, ell=1)
    checks += 1
    if st == 'solved' and math.isfinite(v) and v < v0 - 1e-4 * (1 + abs(v0)):
        return 'bound decreased from %r to %r when ell grew from 0 to 1' % (v0, v), checks
    # shrinking X does not decrease the bound
    Xb, _ = sagecorr.make_domain(rng, n, 'box')
    st, v = solve_bound(f, X=Xb)
    checks += 1
    if st == 'solved' and math.isfinite(v) and v < v0 - 1e-4 * (1 + abs(v0)):
        return 'bound decreased from %r (X = R^n) to %r on a box' % (v0, v), checks
    Xs, _ = sagecorr.make_domain(rng, n, 'ball')
    return None, checks


def oracle_one_negative_box(rng):
    """at most one negative coefficient on a box: feasibility of the certificate iff nonnegative (grid enclosure)"""
    from sageopt.relaxations import sage_sigs as ss
    n = rng.randint(1, 2)
    rows = []
    while len(rows) < 3:
        a = [Fraction(rng.choice([0, 1, -1, 2, 1]), rng.choice([1, 2])) for _ in range(n)]
        if a not in [r for r, _ in rows]:
            rows.append((a, Fraction(rng.choice([1, 2, 3]))))
    rows[rng.randrange(3)] = (rows[0][0] if False else rows[rng.randrange(3)][0], Fraction(-rng.choice([1, 2, 4])))
    seen, rr = [], []
    for a, c in rows:
        if a not in seen:
            seen.append(a)
            rr.append((a, c))
    if sum(1 for _, c in rr if c < 0) != 1 or len(rr) < 2:
        return None
    f = sig(rr, n)
    X, _ = sagecorr.make_domain(rng, n, 'box')     # [-1, 2]^n
    pts = [np.array(p) for p in itertools.product(np.linspace(-1, 2, 121), repeat=n)]
    vals = [float(f(p)) for p in pts]
    lo = min(vals)
    # Lipschitz slack of the grid: |grad| bounded by sum |c| |alpha| e^{|alpha| 2}
    L = sum(abs(float(c)) * sum(abs(float(x)) for x in a) * math.exp(2 * sum(abs(float(x)) for x in a)) for a, c in rr)
    slack = L * (3.0 / 120) * math.sqrt(n)
    with warnings.catch_warnings():
        warnings.simplefilter('ignore')
        st, val = ss.sage_feasibility(f, X).solve(verbose=False)
    feasible = (st == 'solved' and val > -1)
    if lo - slack > 1e-3 and not feasible and st == 'solved':
        return 'one-negative-term signomial with min over the box >= %g is reported not X-SAGE (%r)' % (lo - slack, (st, val))
    if lo < -1e-3 and feasible:
        return 'one-negative-term signomial negative (%g) at a point of the box is reported X-SAGE' % lo
    return None


def oracle_full_covers_box(rng):
    """the cover reduction for conditional AGE cones is a documented heuristic; once the user switches it off through the public setter
    (coniclifts.heuristic_reduce_cond_age_cones(False)) a one-negative-term signomial over a box is X-SAGE iff it is nonnegative on the box:
    f_c = exp(x0) + 1 - c exp(x1) on [0, 1]^2 has minimum 2 - c e"""
    import sageopt.coniclifts as cl
    from sageopt import SigDomain
    from sageopt.relaxations import sage_sigs as ss
    from sageopt.coniclifts.constraints.set_membership import sage_cones as sc_
    old = sc_.SETTINGS['heuristic_reduction']
    try:
        with warnings.catch_warnings():
            warnings.simplefilter('ignore')
            cl.heuristic_reduce_cond_age_cones(False)
            x = cl.Variable(shape=(2,), name='fcb_x')
            X = SigDomain(2, coniclifts_cons=[x >= np.zeros(2), x <= np.ones(2)])
            for c in (0.3, 0.6, 0.7, 0.8, 1.0):
                f = sig([([Fraction(1), Fraction(0)], Fraction(1)), ([Fraction(0), Fraction(0)], Fraction(1)), ([Fraction(0), Fraction(1)], Fraction(-c))], 2)
                true_min = 2 - c * math.e
                st, val = ss.sage_feasibility(f, X).solve(verbose=False)
                certified = st == 'solved' and val > -np.inf
                if abs(true_min) > 1e-3 and certified != (true_min > 0):
                    return ('after coniclifts.heuristic_reduce_cond_age_cones(False), sage_feasibility of exp(x0) + 1 - %g exp(x1) over [0,1]^2 (minimum %g) '
                            'reports (%s, %r)' % (c, true_min, st, val))
    finally:
        cl.heuristic_reduce_cond_age_cones(old)
    return None


def oracle_uncovered_positive_term(rng):
    """membership tests with purely numeric coefficients: a positive term whose exponent is disjoint from the negative term's (it ends up in no AGE
    cover) does not prevent a certificate; f = 1 + exp(x2) + exp(2 x1) - exp(x1) has one negative term and minimum 3/4, in every term order, on R^2
    and on a box, and after an invertible linear change of variables"""
    from sageopt.relaxations import sage_sigs as ss
    base_rows = [([Fraction(0), Fraction(0)], Fraction(1)), ([Fraction(0), Fraction(1)], Fraction(1)), ([Fraction(2), Fraction(0)], Fraction(1)),
                 ([Fraction(1), Fraction(0)], Fraction(-1))]
    M = [[Fraction(1), Fraction(1)], [Fraction(0), Fraction(1)]]
    with warnings.catch_warnings():
        warnings.simplefilter('ignore')
        for name, rows in (('1 + exp(x2) + exp(2 x1) - exp(x1)', base_rows), ('the same terms in another order', [base_rows[3], base_rows[1], base_rows[0], base_rows[2]]),
                           ('the same function after x -> M x', [([a[0] * M[0][0] + a[1] * M[1][0], a[0] * M[0][1] + a[1] * M[1][1]], c) for a, c in base_rows])):
            f = sig(rows, 2)
            for X, xn in ((None, 'R^2'), (sagecorr.make_domain(rng, 2, 'box')[0], 'the box [-1, 2]^2')):
                if X is not None and 'M x' in name:
                    continue
                st, val = ss.sage_feasibility(f, X).solve(verbose=False)
                if not (st == 'solved' and val > -np.inf):
                    return ('sage_feasibility of %s over %s reports (%s, %r): one negative term, minimum 3/4 > 0, so it is SAGE' % (name, xn, st, val))
            fneg = sig([(a, c if a != [Fraction(0), Fraction(0)] else Fraction(1, 5)) for a, c in rows], 2)      # constant 0.2: minimum -0.05
            st, val = ss.sage_feasibility(fneg, None).solve(verbose=False)
            if st == 'solved' and val > -np.inf:
                return 'sage_feasibility certifies %s with the constant replaced by 0.2 (minimum -0.05)' % name
    return None


def oracle_box_as_norms(rng):
    """a box written coordinate by coordinate with norm constraints (|x_i| <= 1: second-order cones next to each other in X.K) is the box: the bound of a
    posynomial over it is its minimum at the corner, and a one-negative-term signomial that is negative at the corner has no certificate"""
    import sageopt.coniclifts as cl
    from sageopt import SigDomain
    from sageopt.relaxations import sage_sigs as ss
    with warnings.catch_warnings():
        warnings.simplefilter('ignore')
        def dom(form, tag):
            xb = cl.Variable(shape=(2,), name='boxnorm_%s_%s' % (form, tag))
            if form == 'norms':
                return SigDomain(2, coniclifts_cons=[cl.vector2norm(xb[0:1]) <= 1, cl.vector2norm(xb[1:2]) <= 1])
            return SigDomain(2, coniclifts_cons=[xb <= 1, xb >= -1])
        f = sig([([Fraction(1), Fraction(0)], Fraction(1)), ([Fraction(0), Fraction(1)], Fraction(1)), ([Fraction(0), Fraction(0)], Fraction(1, 2))], 2)
        want = 2 * math.exp(-1.0) + 0.5
        for form in ('norms', 'bounds'):
            for fm in ('primal', 'dual'):
                st, val = ss.sig_relaxation(f, dom(form, fm), form=fm).solve(verbose=False)
                if not (st == 'solved' and abs(val - want) <= 1e-5):
                    return 'sig_relaxation (%s) of exp(x1) + exp(x2) + 1/2 over the box [-1,1]^2 written with %s reports (%s, %r); the minimum is %r' % (fm, form, st, val, want)
            g = sig([([Fraction(1), Fraction(0)], Fraction(1)), ([Fraction(0), Fraction(1)], Fraction(1)), ([Fraction(0), Fraction(0)], Fraction(-17, 20))], 2)
            st, val = ss.sage_feasibility(g, dom(form, 'feas')).solve(verbose=False)
            if st == 'solved' and val > -np.inf:
                return 'sage_feasibility certifies exp(x1) + exp(x2) - 0.85 over the box [-1,1]^2 written with %s; its minimum there is %r' % (form, 2 * math.exp(-1.0) - 0.85)
    return None


def oracle_conditional(rng):
    """at most one negative coefficient over a conic X (incl. equality blocks followed by other cones, a box in the negative
    orthant): both forms are lower bounds on sampled points of X, primal <= dual, and the optimisation-based cover presolve
    does not change either value"""
    import sageopt.coniclifts as cl
    import sageopt.coniclifts.constraints.set_membership.sage_cones as sc
    from sageopt.relaxations import sage_sigs as ss
    n = rng.randint(1, 2)
    kind = rng.choice(['box', 'eq_box', 'eq_box', 'eq_box', 'mixed', 'ball', 'negbox', 'negbox', 'expcone', 'expcone'])
    X, _ = sagecorr.make_domain(rng, n, kind)
    if kind == 'box' and n == 2 and rng.random() < 0.5:
        # a polyhedral domain stated through coniclifts constraints that leave the last coordinate FREE: {0 <= x0 <= 1}; shrinking it
        # to the box [0,1] x [-1,2] must not lower the bound, and both bounds are lower bounds on their sets
        from sageopt.symbolic.signomials import SigDomain
        xs_ = cl.Variable(shape=(2,), name='slab_x')
        Xslab = SigDomain(2, coniclifts_cons=[xs_[0] >= 0, xs_[0] <= 1])
        Xbox2 = SigDomain(2, coniclifts_cons=[xs_[0] >= 0, xs_[0] <= 1, xs_[1] >= -1, xs_[1] <= 2])
        fs_ = sig([([Fraction(-1), Fraction(-1)], Fraction(1)), ([Fraction(1), Fraction(1)], Fraction(1, 50) * rng.choice([1, 2]))], 2)
        with warnings.catch_warnings():
            warnings.simplefilter('ignore')
            vs_ = {}
            for nm0, Xd in (('slab', Xslab), ('box', Xbox2)):
                for fm in ('primal', 'dual'):
                    vs_[nm0 + '/' + fm] = ss.sig_relaxation(fs_, Xd, form=fm).solve(verbose=False)
        ub_slab = min(float(fs_(np.array([a_, b_]))) for a_ in np.linspace(0, 1, 21) for b_ in np.linspace(-6, 6, 241))
        ub_box = min(float(fs_(np.array([a_, b_]))) for a_ in np.linspace(0, 1, 21) for b_ in np.linspace(-1, 2, 61))
        for nm, (st_, val_) in vs_.items():
            ub_ = ub_slab if nm.startswith('slab') else ub_box
            if st_ == 'solved' and isinstance(val_, float) and math.isfinite(val_) and val_ > ub_ + 1e-4 * (1 + abs(ub_)):
                return 'bound %r (%s) of exp(-x0-x1) + c exp(x0+x1) over the domain {0 <= x0 <= 1%s} exceeds f at a point of it (%r)' % (
                    val_, nm, '' if nm.startswith('slab') else ', -1 <= x1 <= 2', ub_)
        for fm in ('primal', 'dual'):
            a_, b_ = vs_['slab/' + fm], vs_['box/' + fm]
            if a_[0] == b_[0] == 'solved' and math.isfinite(a_[1]) and math.isfinite(b_[1]) and b_[1] < a_[1] - 1e-4 * (1 + abs(a_[1])):
                return 'the %s bound decreases from %r on {0 <= x0 <= 1} to %r on the smaller set {0 <= x0 <= 1, -1 <= x1 <= 2}' % (fm, a_[1], b_[1])
    rows = []
    while len(rows) < rng.randint(1, 4):
        a = [Fraction(rng.choice([0, 1, -1, 2, 1]), rng.choice([1, 2])) for _ in range(n)]
        if a not in [r for r, _ in rows]:
            rows.append((a, Fraction(rng.choice([1, 2, 5]))))
    if len(rows) >= 2 and rng.random() < 0.7:
        k = rng.randrange(len(rows))
        rows[k] = (rows[k][0], Fraction(-rng.choice([1, 2])))
    f = sig(rows, n)
    ub = math.inf
    for _ in range(120):
        x, w = sagecorr.sample_domain_point(rng, n, kind, X)
        if x is None:
            break
        ub = min(ub, float(f(np.array(x))))
    if not math.isfinite(ub):
        return None
    saved = dict(sc.SETTINGS)
    vals = {}
    try:
        with warnings.catch_warnings():
            warnings.simplefilter('ignore')
            for pre in (False, True):
                cl.presolve_trivial_age_cones(pre)
                for form in ('primal', 'dual'):
                    try:
                        vals[(form, pre)] = ss.sig_relaxation(f, X, form=form).solve(verbose=False)
                    except RuntimeError as e:
                        msg = ' '.join(str(e).split())
                        # a constructor that refuses the SAGE constraint as infeasible says the same as a solve returning -inf
                        vals[(form, pre)] = ('solved', -math.inf) if 'infeasible' in msg else ('error', msg[:80])
    finally:
        sc.SETTINGS.clear()
        sc.SETTINGS.update(saved)
    # the epigraph (non-compact) encoding of the dual cone describes the same cone: same dual value
    try:
        with warnings.catch_warnings():
            warnings.simplefilter('ignore')
            cl.compact_sage_duals(False)
            try:
                vals[('dual-epigraph', False)] = ss.sig_relaxation(f, X, form='dual').solve(verbose=False)
            except RuntimeError as e:
                vals[('dual-epigraph', False)] = ('error', ' '.join(str(e).split())[:80])
    finally:
        sc.SETTINGS.clear()
        sc.SETTINGS.update(saved)
    desc = 'f=%s on X=%s' % ([([str(t) for t in a], str(c)) for a, c in rows], kind)
    a_, b_ = vals[('dual', False)], vals[('dual-epigraph', False)]
    if a_[0] == b_[0] == 'solved' and isinstance(a_[1], float) and isinstance(b_[1], float) and not close(a_[1], b_[1], 1e-4):
        return 'dual bound %r with compact_dual=True but %r with compact_dual=False; %s' % (a_[1], b_[1], desc)
    for key, (st, val) in vals.items():
        if st == 'solved' and isinstance(val, float) and math.isfinite(val) and val > ub + 1e-4 * (1 + abs(ub)):
            return '%s bound %r (presolve_trivial_age_cones=%s) exceeds f at a point of X (%r); %s' % (key[0], val, key[1], ub, desc)
    for pre in (False, True):
        a, b = vals[('primal', pre)], vals[('dual', pre)]
        if a[0] == b[0] == 'solved' and math.isfinite(a[1]) and math.isfinite(b[1]) and a[1] > b[1] + 1e-4 * (1 + abs(b[1])):
            return 'primal bound %r exceeds dual bound %r (presolve=%s); %s' % (a[1], b[1], pre, desc)
        # at most one negative term: SAGE is exact in both forms, so the two values coincide
        if a[0] == b[0] == 'solved' and math.isfinite(a[1]) and math.isfinite(b[1]) and not close(a[1], b[1], 1e-3):
            return ('primal bound %r and dual bound %r of a signomial with at most one negative term differ (presolve=%s); %s'
                    % (a[1], b[1], pre, desc))
    for form in ('primal', 'dual'):
        a, b = vals[(form, False)], vals[(form, True)]
        if a[0] == b[0] == 'solved' and isinstance(a[1], float) and isinstance(b[1], float) and not close(a[1], b[1], 1e-4):
            return ('%s bound changes from %r to %r when presolve_trivial_age_cones is switched on (the presolve may only remove AGE cones '
                    'that are trivial); %s' % (form, a[1], b[1], desc))
        if (a[0] == 'solved') != (b[0] == 'solved') and 'ECOS' not in str(a[1]) + str(b[1]):
            return '%s relaxation: %r without and %r with presolve_trivial_age_cones; %s' % (form, a, b, desc)
    return None


def oracle_directed(rng):
    """directed scenarios: (1) the domain is part of the question: the same exponents first on R^n, then on a box; (2) nearly parallel
    exponent rows (an invertible linear change of variables of rows that differ in one coordinate only); (3) kernel_basis=True on an
    ill-scaled exponent matrix"""
    import sageopt.coniclifts as cl
    import sageopt as so
    import sageopt.coniclifts.constraints.set_membership.sage_cones as sc
    from sageopt.relaxations import sage_sigs as ss
    saved = dict(sc.SETTINGS)
    try:
        with warnings.catch_warnings():
            warnings.simplefilter('ignore')
            # (1) exp(x + 2y): infimum 0 on R^2, e^3 on the box [1,2]^2; 2-term function e^{x} + e^{-x}... asked on R^n first
            y = so.standard_sig_monomials(2)
            for f, lo_box in ((y[0] * y[1] ** 2, math.e ** 3), (y[0] ** 2 * y[1] + 0.5 * y[0], math.e ** 3 + 0.5 * math.e)):
                for form in ('primal', 'dual'):
                    r0 = ss.sig_relaxation(f, None, form=form).solve(verbose=False)
                    if r0[0] == 'solved' and math.isfinite(r0[1]) and r0[1] > 1e-4:
                        return 'the %s bound of a posynomial with infimum 0 on R^2 is %r' % (form, r0[1])
                X = ss.infer_domain(f, [y[0] - math.e, math.e ** 2 - y[0], y[1] - math.e, math.e ** 2 - y[1]], [])
                for form in ('primal', 'dual'):
                    r1 = ss.sig_relaxation(f, X, form=form).solve(verbose=False)
                    if r1[0] != 'solved' or not close(r1[1], lo_box, 1e-4):
                        return ('after the same function was relaxed over R^2, its %s bound over the box [1,2]^2 is %r; the minimum over the box is '
                                '%r and SAGE is exact for posynomials' % (form, r1, lo_box))
            # (2) invariance under an invertible linear map that makes the rows nearly parallel
            rows = np.array([[0.0, 1.0], [4e-6, 1.0], [8e-6, 1.0], [0.0, -1.0]])
            cc = np.array([0.1, 0.1, 5.0, 1.0])          # a posynomial with infimum 2 sqrt(0.1)
            T = np.array([[1.0, 0.0], [1.0, 1.0]])
            inf_f = 2 * math.sqrt(0.1)
            f0 = so.Signomial(rows, cc)
            f1 = so.Signomial(rows @ T, cc)
            for form in ('primal', 'dual'):
                a, b = ss.sig_relaxation(f0, form=form).solve(verbose=False), ss.sig_relaxation(f1, form=form).solve(verbose=False)
                for nm, r in (('', a), (' after the linear change of variables alpha -> alpha @ [[1,0],[1,1]]', b)):
                    if r[0] == 'solved' and math.isfinite(r[1]) and r[1] > inf_f + 5e-3:
                        return ('the %s bound %r of the posynomial with exponent rows %s%s exceeds its infimum %r'
                                % (form, r[1], rows.tolist(), nm, inf_f))
                if a[0] == b[0] == 'solved' and math.isfinite(a[1]) and math.isfinite(b[1]) and abs(a[1] - b[1]) > 5e-3:
                    return ('the %s bound of the posynomial with exponent rows %s changes from %r to %r under the invertible linear change of '
                            'variables alpha -> alpha @ %s' % (form, rows.tolist(), a[1], b[1], T.tolist()))
            # (4) translations far enough to make the data ill scaled: a bound REPORTED AS SOLVED is the bound of f (a solve that the solver only
            #     finishes to reduced accuracy must say so)
            ft = so.Signomial(np.array([[0.0], [2.0], [3.0], [1.6]]), np.array([1.79, 1.04, 0.93, -1.02]))
            base = {form: ss.sig_relaxation(ft, form=form).solve(verbose=False) for form in ('primal', 'dual')}
            for t in (2.5, 3.0):
                gt = ft.shift_coordinates(np.array([t]))
                for form in ('primal', 'dual'):
                    r = ss.sig_relaxation(gt, form=form).solve(verbose=False)
                    b0 = base[form]
                    if r[0] == 'solved' and b0[0] == 'solved' and not close(r[1], b0[1], 1e-4):
                        return ('the %s bound of f(x + %g) is reported as (solved, %r) but the bound of f is %r (f = 1.79 + 1.04 e^2x + 0.93 e^3x - 1.02 e^1.6x)'
                                % (form, t, r[1], b0[1]))
            # (3) kernel_basis=True, exponents (30, 0) and (-30, 2e-5): the bound of a posynomial with infimum 0 stays 0
            fk = so.Signomial(np.array([[0.0, 0.0], [30.0, 0.0], [-30.0, 2e-5]]), np.array([-2.0, 1.0, 1.0]))
            vals = {}
            for kb in (False, True):
                cl.kernel_basis_age_witnesses(kb)
                try:
                    vals[kb] = ss.sig_relaxation(fk, form='primal').solve(verbose=False)
                except RuntimeError:
                    vals[kb] = ('solved', -math.inf)
            sc.SETTINGS.update(saved)
            a, b = vals[False], vals[True]
            if a[0] == b[0] == 'solved' and (math.isfinite(a[1]) != math.isfinite(b[1]) or (math.isfinite(a[1]) and not close(a[1], b[1], 1e-3))):
                return ('primal bound of -2 + exp(30 x0) + exp(-30 x0 + 2e-5 x1) is %r with kernel_basis=False and %r with kernel_basis=True'
                        % (a[1], b[1]))
            if b[0] == 'solved' and math.isfinite(b[1]) and b[1] > -2.0 + 1e-3:
                return 'primal bound %r of -2 + exp(30 x0) + exp(-30 x0 + 2e-5 x1) with kernel_basis=True exceeds the infimum -2' % b[1]
    finally:
        sc.SETTINGS.clear()
        sc.SETTINGS.update(saved)
    return None


HEADER = ('From Coq Require Import List Bool Arith ZArith QArith.\n'
          'From SageVerif Require Import Model.Expr Model.Sage Model.Covers Base.Corr.\nImport ListNotations.\n'
          'Definition model (x : list (list Q) * list sexpr * bool * bool) :=\n'
          "  let '(alpha, c, hx, h) := x in default_covers alpha c hx h.")


def covers_suite(ctx):
    """tie of the optimisation-free cover presolve (Model/Covers.v) to ExpCoverHelper._default_covers"""
    import sageopt.coniclifts as cl
    from sageopt.coniclifts.base import Expression
    from harness.vlib import cq
    from harness.props import c08
    cases = []
    for _ in range(ctx.n(150, 1500)):
        n = ctx.rng.randint(1, 3)
        m = ctx.rng.randint(2, 6)
        nonneg = ctx.rng.choice([False, True, True, 'almost', 'almost'])
        alpha = sagecorr.gen_alpha(ctx.rng, m, n, nonneg)
        kind = ctx.rng.choice(['none', 'none', 'box', 'halfspace'])
        X, _ = sagecorr.make_domain(ctx.rng, n, kind)
        cv = cl.Variable(shape=(3,), name='cvar')
        cvals = sagecorr.gen_c(ctx.rng, m, [cv[0], cv[1], cv[2]])
        heur = ctx.rng.random() < 0.6
        settings = sagecorr.full_settings({'presolve_trivial_age_cones': False, 'heuristic_reduction': heur, 'kernel_basis': False})
        dual_cone = ctx.rng.random() < 0.4
        ctx.count('covers.cone', 'dual' if dual_cone else 'primal')
        try:
            # every setting explicit, the module-level defaults hold the opposite values: the presolve follows the constraint's own settings
            with warnings.catch_warnings(), sagecorr.adversarial_globals(settings):
                warnings.simplefilter('ignore')
                anp = np.array([[float(a) for a in r] for r in alpha]).reshape(m, n)
                if dual_cone:
                    con = cl.DualSageCone(cl.Variable(shape=(m,), name='covv'), anp, X, 'covd', c=Expression(cvals), settings=dict(settings))
                else:
                    con = cl.PrimalSageCone(Expression(cvals), anp, X, 'cov', settings=dict(settings))
        except RuntimeError:
            continue
        covs = [vlib.Some([bool(b) for b in con.ech.covers[i].tolist()]) if i in con.ech.U_I else None for i in range(m)]
        ctx.count('covers.domain', kind)
        ctx.count('covers.nonneg_alpha', str(nonneg))
        cases.append(({'alpha': [[str(a) for a in r] for r in alpha], 'domain': kind, 'heuristic': heur},
                      cq((alpha, [c08.cell_desc(se) for se in con.c.flat], X is not None, heur)), cq(covs)))
    ctx.evaluations += len(cases)
    mism, err = vlib.run_suite_in_coq(ctx.pid, 'default_covers', HEADER, 'model', 'list_eqb (option_eqb (list_eqb Bool.eqb))',
                                      'list (list Q) * list sexpr * bool * bool', 'list (option (list bool))', [(c[1], c[2]) for c in cases], shard=100)
    ctx.suites['default_covers'] = {'cases': len(cases), 'mismatches': None if mism is None else len(mism)}
    if err:
        ctx.problem('correspondence', 'suite default_covers: ' + err)
        return
    for idx in mism[:3]:
        model_out = vlib.coq_show(HEADER, 'model %s' % cases[idx][1])
        ctx.problem('correspondence', 'suite default_covers: model and implementation disagree on %s; impl=%s model=%s'
                    % (cases[idx][0], cases[idx][2][:600], model_out[:600]), inputs=cases[idx][0], failing_input_found=False)


def probe_f9():
    """known finding F9: sage_feasibility of a posynomial raises IndexError (a Problem without Variables cannot be compiled).  Returns 'raises' when the
    listed failure is reproduced, 'ok' when the call succeeds with a certificate, otherwise a description of some OTHER behaviour (a violation)"""
    import sageopt as so
    from sageopt.relaxations import sage_sigs as ss
    y = so.standard_sig_monomials(2)
    with warnings.catch_warnings():
        warnings.simplefilter('ignore')
        try:
            st, val = ss.sage_feasibility(y[0] + y[1] + 1.0, None).solve(verbose=False)
        except IndexError:
            return 'raises'
        except Exception as e:
            return 'sage_feasibility(exp(x0) + exp(x1) + 1) raised %r' % (e,)
    if st == 'solved' and val > -np.inf:
        return 'ok'
    return 'sage_feasibility(exp(x0) + exp(x1) + 1) reports (%s, %r): a posynomial with minimum > 0 is SAGE' % (st, val)


def run(ctx):
    kf9 = [f for f in vlib.load_known_findings().get('findings', []) if f.get('id') == 'F9']
    r9 = probe_f9()
    ctx.evaluations += 1
    if r9 == 'raises':
        if kf9:
            ctx.known_hits.append(kf9[0]['line'])
        else:
            ctx.problem('oracle', 'property fails on the implementation: sage_feasibility of the posynomial exp(x0) + exp(x1) + 1 raises IndexError instead of succeeding',
                        inputs={'suite': 'posynomial_feasibility'}, failing_input_found=True)
    elif r9 != 'ok':
        ctx.problem('oracle', 'property fails on the implementation: ' + r9, inputs={'suite': 'posynomial_feasibility'}, failing_input_found=True)
    covers_suite(ctx)
    for name, f, reps in (('directed', oracle_directed, 1), ('full_covers_box', oracle_full_covers_box, 1), ('uncovered_positive_term', oracle_uncovered_positive_term, 1), ('box_as_norms', oracle_box_as_norms, 1), ('circuit', oracle_circuit, ctx.n(4, 30)), ('one_negative_box', oracle_one_negative_box, ctx.n(6, 60)),
                          ('conditional', oracle_conditional, ctx.n(40, 300))):
        for _ in range(reps):
            why = f(ctx.rng)
            ctx.evaluations += 1
            ctx.count('stream', name)
            ctx.nontrivial.add(vlib.sha([name, ctx.evaluations]))
            if why:
                ctx.problem('oracle', 'property fails on the implementation: ' + why, inputs={'stream': name}, failing_input_found=True)
                return
    for _ in range(ctx.n(6, 50)):
        why, checks = oracle_metamorphic(ctx.rng)
        ctx.evaluations += checks
        ctx.count('stream', 'metamorphic')
        ctx.nontrivial.add(vlib.sha(['meta', ctx.evaluations]))
        if why:
            ctx.problem('oracle', 'property fails on the implementation: ' + why, inputs={'stream': 'metamorphic'}, failing_input_found=True)
            return
    ctx.samples.append({'streams': ['circuit closed form', 'one negative term on a box (grid enclosure)',
                                    'metamorphic: permute, translate, linear map, a*f+k, ell+1, shrink X']})
    ctx.suites['oracle_streams'] = {'evaluations': ctx.evaluations}


def search(ctx):
    before = len(ctx.problems)
    run(ctx)
    for pr in ctx.problems[before:]:
        if pr['failing_input_found']:
            return pr['inputs']
    del ctx.problems[before:]
    return None


def replay(payload):
    ctx = vlib.Ctx('C06', 'quick', int(payload.get('seed', 0)))
    found = search(ctx)
    print(found or 'property holds on the regenerated instances')
    return 1 if found else 0
