import json,glob,os,sys
pid=sys.argv[1]; n=int(sys.argv[2]) if len(sys.argv)>2 else 4; w=int(sys.argv[3]) if len(sys.argv)>3 else 1800
try:
    d=json.load(open('/verif/evidence/%s.json'%pid)); print(json.dumps(d['coverage']['suites'])); print(d['coverage']['input_distribution'])
except Exception as e: print(e)
for f in sorted(glob.glob('/verif/replay/%s*.json'%pid), key=os.path.getmtime)[-n:]:
    d=json.load(open(f)); print('---',d['kind'], d['detail'][:w]); print()
