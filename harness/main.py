"""./check <PID> quick|thorough [--replay path]   (see DESIGN.md §2.4, §2.5)"""
import importlib
import json
import os
import sys
import time
import traceback

from harness import vlib


def main(argv):
    if len(argv) < 2:
        print('usage: check <PID> quick|thorough [--replay path] | check build')
        return 2
    if argv[1] == 'build':
        b = vlib.build('setup')
        gate = vlib.grep_gate()
        print('build ok=%s failed=%s gate=%s translator_error=%s wall=%.1fs' % (b.ok, b.failed_files, gate, b.translator_error, b.wall))
        if not b.ok:
            print(b.log[-3000:])
        return 0 if b.ok and not gate else 1
    pid = argv[1]
    tier = argv[2] if len(argv) > 2 and argv[2] in ('quick', 'thorough') else os.environ.get('VERIF_TIER', 'quick')
    seed = int(os.environ.get('VERIF_SEED', '20260929'))
    replay = None
    if '--replay' in argv:
        replay = argv[argv.index('--replay') + 1]
    mod = importlib.import_module('harness.props.%s' % pid.lower())
    if replay:
        return mod.replay(json.load(open(replay)))
    ctx = vlib.Ctx(pid, tier, seed)
    t0 = time.time()

    # ---- 1. build (translator + full make), 2. gate
    b = vlib.build('build_' + pid)
    gate = vlib.grep_gate()
    obs = vlib.obligations(pid)
    needed = set()
    for o in obs:
        needed |= vlib.deps_of(o)
    failed_needed = sorted(f for f in b.failed_files if f in needed)
    undischarged = [o for o in obs if o in b.failed_files or
                    not os.path.exists(os.path.join(vlib.COQ, o[:-2] + '.vo'))]
    # obligations that depend on a failed file are undischarged too
    for o in obs:
        if o not in undischarged and (vlib.deps_of(o) & set(b.failed_files)):
            undischarged.append(o)
    proof_broken = []
    stale = []
    if b.translator_errors:
        # a Gen file that could not be regenerated is stale: every obligation that depends on it is no longer checked against the source
        hit = sorted(g for g in b.translator_errors if g == 'theories/Gen/*' or g in needed)
        if hit or ('theories/Gen/*' in b.translator_errors and getattr(mod, 'USES_TRANSLATOR', False)):
            stale = [o for o in obs if 'theories/Gen/*' in b.translator_errors or (vlib.deps_of(o) & set(hit))]
            for o in stale:
                if o not in undischarged:
                    undischarged.append(o)
            proof_broken.append('translator failed closed for %s: %s ; obligations no longer checked against the current source: %s'
                                % (hit, '; '.join(b.translator_errors[g] for g in hit) or b.translator_error, stale))
    if [o for o in undischarged if o not in stale]:
        errs = []
        for f in failed_needed or undischarged:
            i = b.log.find(f)
            errs.append(b.log[i:i + 800] if i >= 0 else f)
        proof_broken.append('obligations not discharged: %s ; failing files: %s ; first error: %s'
                            % (undischarged, failed_needed, errs[:1]))
    if gate:
        proof_broken.append('grep gate: ' + '; '.join(gate))
    if not obs:
        proof_broken.append('no obligations found under Props/%s' % pid)

    # ---- 3. correspondence + known-finding probes (always run: they are the tie)
    try:
        mod.run(ctx)
    except Exception:
        ctx.problem('harness', 'exception in correspondence harness: ' + traceback.format_exc()[-2500:])

    # ---- 4. proof broken -> search for a concrete failing input on the real code
    for msg in proof_broken:
        found = None
        try:
            found = mod.search(ctx)
        except Exception:
            ctx.notes.append('search raised: ' + traceback.format_exc()[-1500:])
        if found:
            ctx.problem('proof', msg, inputs=found, failing_input_found=True)
        else:
            ctx.problem('proof', msg, inputs=None, failing_input_found=False)

    # ---- 5. evidence
    axioms, assum_note = ([], 'skipped (build broken)')
    if not undischarged and obs:
        axioms, assum_note = vlib.assumptions_for(pid)
    chk_note, chk_axioms = '', []
    if tier == 'thorough' and not undischarged and obs:
        ok, chk_axioms, chk_cmd, chk_wall, chk_tail = vlib.coqchk_for(pid)
        chk_note = ' ; %s (ok=%s, %.0fs)' % (chk_cmd, ok, chk_wall)
        if not ok:
            ctx.problem('proof', 'coqchk rejects the compiled obligations of %s: %s' % (pid, chk_tail), inputs=None, failing_input_found=False)
    coverage = {
        'obligations': len(obs),
        'discharged': len(obs) - len(undischarged),
        'checker_cmd': b.cmd + ' ; coqc Print Assumptions over Props/%s (%s)' % (pid, assum_note) + chk_note,
        'trusted_base': ['Coq 8.16.1 kernel + coqc + vm_compute (no native_compute)'] +
                        ['axiom: ' + a for a in axioms] +
                        ['coqchk -o axiom (whole closure): ' + a for a in chk_axioms] +
                        (['Print Assumptions: all theorems closed under the global context'] if not axioms and obs and not undischarged else []) +
                        list(getattr(mod, 'TRUSTED', [])),
        'obligation_files': obs,
        'undischarged': undischarged,
        'evaluations': ctx.evaluations,
        'distinct_nontrivial': len(ctx.nontrivial),
        'rule': getattr(mod, 'RULE', ''),
        'samples': ctx.samples[:8],
        'input_distribution': ctx.dist,
        'suites': ctx.suites,
        'exhaustive': bool(getattr(ctx, 'exhaustive', False)),
        'known_findings_reproduced': ctx.known_hits,
        'notes': ctx.notes,
        'build_wall_s': round(b.wall, 1),
    }
    violations = len(ctx.problems)
    vlib.write_evidence(pid, tier, seed, coverage, list(getattr(mod, 'ASSUMPTIONS', [])), time.time() - t0, violations)

    for kf in ctx.known_hits:
        print('KNOWN-FINDING: property=%s %s' % (pid, kf))
    if not ctx.problems:
        print('OK property=%s tier=%s obligations=%d discharged=%d evaluations=%d nontrivial=%d wall=%.1fs'
              % (pid, tier, len(obs), len(obs) - len(undischarged), ctx.evaluations, len(ctx.nontrivial), time.time() - t0))
        return 0
    for pr in ctx.problems:
        payload = {'property': pid, 'kind': pr['kind'], 'detail': pr['detail'], 'input': pr['inputs'],
                   'failing_input_found': pr['failing_input_found'], 'seed': seed, 'tier': tier}
        path = vlib.write_replay(pid, payload)
        tail = '' if pr['failing_input_found'] else ' no-failing-input-found'
        print('VIOLATION property=%s replay=%s%s' % (pid, path, tail))
    return 1


def supervise(argv):
    """run the check in a child process: the external solver (ECOS, a C extension) can take the whole interpreter down on a
    degenerate problem.  A child killed by a signal is re-run with a derived seed (twice); if the solver process dies every time the
    property is no longer shown to hold on this tree and that is reported as a violation without a failing input."""
    import subprocess
    if len(argv) < 3 or argv[1] == 'build' or '--replay' in argv or os.environ.get('VERIF_CHILD') == '1':
        return main(argv)
    seed = int(os.environ.get('VERIF_SEED', '20260929'))
    crashes = []
    for attempt in range(3):
        env = dict(os.environ, VERIF_CHILD='1', VERIF_SEED=str(seed + 7919 * attempt))
        rc = subprocess.call([sys.executable, '-m', 'harness.main'] + argv[1:], env=env)
        if 0 <= rc < 128:
            if crashes and rc == 0:
                print('NOTE property=%s: %d earlier attempt(s) ended with the solver process killed (%s); re-run with a derived seed' % (argv[1], len(crashes), crashes))
            return rc
        crashes.append('seed %d: exit status %d' % (seed + 7919 * attempt, rc))
    pid = argv[1]
    path = os.path.join(vlib.VERIF, 'replay', '%s-crash-%d.json' % (pid, seed))
    os.makedirs(os.path.dirname(path), exist_ok=True)
    json.dump({'property': pid, 'kind': 'harness', 'detail': 'the check process was killed by a signal on every attempt (%s): the correspondence '
               'for %s could not be evaluated on this tree' % (crashes, pid), 'input': None, 'failing_input_found': False, 'seed': seed}, open(path, 'w'), indent=1)
    print('VIOLATION property=%s replay=%s no-failing-input-found' % (pid, path))
    return 1


if __name__ == '__main__':
    sys.exit(supervise(sys.argv))
