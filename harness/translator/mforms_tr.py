"""Fail-closed translation of reformulators.py (separate_cone_constraints, dualize_problem) and of Mosek._primal_apply / _dual_apply
(problems/solvers/mosek.py) into Gallina (Gen/GenMosekForms.v).

Everything except array-valued library calls is translated STRUCTURALLY by a small typed statement/expression translator:
    assignments, tuple assignments, `x += e`, `lst.append(e)`, `K[i] = e`, `if` / `elif` / `else`, `if x is None: x = e`,
    `for Ki in Kp`  (a fold_left over Kp whose state is the tuple of the variables the body assigns),
    `for i in range(len(K))` with K[i] read and written (a fold_left over K that rebuilds K element by element),
    index arithmetic, comparisons, `x not in allowed`, set literals / union (membership lists), Cone(type, len[, {'col mapping': e}]),
    list comprehensions over a cone list filtered by type, `len`, `.shape[0]`, `.shape[1]` (the column count is tracked with every
    matrix), the slot variables of `aug_data = [[], [], []]`.
Array idioms (fixed table): boolean-mask indexing A[sel, :], G[:, sel], b[sel] -> mask / cols; unary minus -> negm / map topp;
    sp.vstack / np.hstack / np.concatenate -> ++ (np.hstack of a list of index arrays -> concat); sp.hstack -> hcat; A.T -> transpose;
    np.zeros / np.ones / -1 * np.ones -> repeat; np.arange -> arange; np.count_nonzero / int(np.sum(..)) -> count_true;
    sp.csc_matrix((vals, (rows, cols)), shape) -> coo_matrix (Model/FormIdioms.v, duplicates summed)."""
import ast

from harness.translator.tables import TranslationError, _src, _find_func, _find_toplevel_func
from harness.translator.forms_tr import TAG


def _u(e):
    return ast.unparse(e)


class V:
    def __init__(self, kind, g, ncols=None, base=None):
        self.kind, self.g, self.ncols, self.base = kind, g, ncols, base


LISTOF = {'natlist': 'natlistlist', 'cone': 'conelist', 'sepcone': 'sepconelist', 'nat': 'natlist'}


class Tr:
    def __init__(self, fname):
        self.fname = fname
        self.env = {}
        self.loopK = None     # (python name of the list being rebuilt, index variable, gallina name of the current element)

    def fail(self, what, e=None):
        raise TranslationError('%s: %s%s' % (self.fname, what, (': ' + (_u(e) if isinstance(e, ast.AST) else str(e))[:100]) if e is not None else ''))

    # ------------------------------------------------------------------ expressions
    def slot(self, e):
        """aug_data[k] -> python pseudo-name aug_data_k"""
        if isinstance(e, ast.Subscript) and isinstance(e.value, ast.Name) and isinstance(e.slice, ast.Constant) and isinstance(e.slice.value, int):
            nm = '%s_%d' % (e.value.id, e.slice.value)
            if nm in self.env:
                return nm
        return None

    def ctag(self, e):
        if isinstance(e, ast.Constant) and e.value in TAG:
            return V('ctag', TAG[e.value])
        v = self.expr(e)
        if v.kind != 'ctag':
            self.fail('expected a cone type', e)
        return v

    def nat(self, e):
        v = self.expr(e)
        if v.kind != 'nat':
            self.fail('expected an integer', e)
        return v

    def cone_elem(self, e):
        """K[i] inside `for i in range(len(K))`"""
        if self.loopK and isinstance(e, ast.Subscript) and isinstance(e.value, ast.Name) and e.value.id == self.loopK[0] \
                and isinstance(e.slice, ast.Name) and e.slice.id == self.loopK[1]:
            return V('cone', self.loopK[2])
        return None

    def seq_parts(self, arg):
        if isinstance(arg, (ast.List, ast.Tuple)):
            return [self.expr(x) for x in arg.elts]
        return None

    def expr(self, e):
        if isinstance(e, ast.Name):
            if self.loopK and e.id == self.loopK[0]:
                self.fail('the list rebuilt by the loop may only be used as %s[%s] inside the loop' % (self.loopK[0], self.loopK[1]), e)
            if e.id in self.env:
                return self.env[e.id]
            self.fail('unknown name', e)
        if isinstance(e, ast.Constant):
            if isinstance(e.value, bool):
                self.fail('unsupported constant', e)
            if isinstance(e.value, int) and e.value >= 0:
                return V('nat', str(e.value))
            if e.value in TAG:
                return V('ctag', TAG[e.value])
            self.fail('unsupported constant', e)
        ce = self.cone_elem(e)
        if ce:
            return ce
        sl = self.slot(e)
        if sl:
            return self.env[sl]
        if isinstance(e, ast.UnaryOp) and isinstance(e.op, ast.USub):
            v = self.expr(e.operand)
            if v.kind == 'mat':
                return V('mat', '(negm topp %s)' % v.g, v.ncols)
            if v.kind == 'vec':
                return V('vec', '(map topp %s)' % v.g)
            self.fail('negation of something that is neither a matrix nor a vector', e)
        if isinstance(e, ast.Attribute):
            if e.attr in ('type', 'len'):
                v = self.expr(e.value)
                if v.kind != 'cone':
                    self.fail('.type/.len of something that is not a cone', e)
                return V('ctag', '(fst %s)' % v.g) if e.attr == 'type' else V('nat', '(snd %s)' % v.g)
            if e.attr == 'T':
                v = self.expr(e.value)
                if v.kind != 'mat' or v.ncols is None:
                    self.fail('transpose of something whose column count is not tracked', e)
                return V('mat', '(transpose %s %s)' % (v.ncols, v.g), '(length %s)' % v.g)
            self.fail('unsupported attribute', e)
        if isinstance(e, ast.Subscript):
            # X.shape[k]
            if isinstance(e.value, ast.Attribute) and e.value.attr == 'shape' and isinstance(e.slice, ast.Constant) and e.slice.value in (0, 1):
                v = self.expr(e.value.value)
                if v.kind != 'mat':
                    self.fail('.shape of something that is not a matrix', e)
                if e.slice.value == 0:
                    return V('nat', '(length %s)' % v.g)
                if v.ncols is None:
                    self.fail('column count of this matrix is not tracked', e)
                return V('nat', v.ncols)
            # type_selectors['X']
            if isinstance(e.value, ast.Name) and e.value.id in self.env and self.env[e.value.id].kind == 'sels':
                if isinstance(e.slice, ast.Constant) and e.slice.value in TAG:
                    return V('sel', '(gen_selector %s %s)' % (self.env[e.value.id].g, TAG[e.slice.value]))
                self.fail('expected type_selectors[<cone type>]', e)
            base = self.expr(e.value)
            s = e.slice
            if base.kind == 'mat':
                if isinstance(s, ast.Tuple) and len(s.elts) == 2:
                    a, b = s.elts
                    if _u(b) == ':' :
                        sel = self.expr(a)
                        if sel.kind == 'sel':
                            return V('mat', '(mask %s %s)' % (sel.g, base.g), base.ncols)
                    if _u(a) == ':':
                        sel = self.expr(b)
                        if sel.kind == 'sel':
                            return V('mat', '(cols %s %s)' % (sel.g, base.g), None)
                self.fail('matrix rows/columns must be selected by a boolean cone-type selector', e)
            if base.kind == 'vec':
                sel = self.expr(s)
                if sel.kind == 'sel':
                    return V('vec', '(mask %s %s)' % (sel.g, base.g))
            self.fail('unsupported subscript', e)
        if isinstance(e, ast.BinOp):
            if isinstance(e.op, ast.Mult) and _u(e.left) == '-1' and isinstance(e.right, ast.Call) and _u(e.right.func) == 'np.ones' and len(e.right.args) == 1:
                return V('vec', '(repeat (topp tone) %s)' % self.nat(e.right.args[0]).g)
            l, r = self.expr(e.left), self.expr(e.right)
            if isinstance(e.op, ast.Add) and l.kind == 'nat' and r.kind == 'nat':
                return V('nat', '(%s + %s)' % (l.g, r.g))
            if isinstance(e.op, ast.Sub) and l.kind == 'nat' and r.kind == 'nat':
                return V('nat', '(%s - %s)' % (l.g, r.g))
            if isinstance(e.op, ast.Add) and l.kind == 'nat' and r.kind == 'natlist':
                return V('natlist', '(map (fun j_ => %s + j_) %s)' % (l.g, r.g))
            self.fail('unsupported arithmetic', e)
        if isinstance(e, ast.Set):
            return V('ctaglist', '[' + '; '.join(self.ctag(x).g for x in e.elts) + ']')
        if isinstance(e, ast.ListComp) and len(e.generators) == 1:
            g = e.generators[0]
            if isinstance(g.target, ast.Name) and len(g.ifs) == 1 and not g.is_async:
                it = self.expr(g.iter)
                if it.kind == 'conelist':
                    var = g.target.id
                    saved = self.env.get(var)
                    self.env[var] = V('cone', 'co_')
                    try:
                        test = self.cond(g.ifs[0])
                        if isinstance(e.elt, ast.Name) and e.elt.id == var:
                            return V('conelist', '(filter (fun co_ => %s) %s)' % (test, it.g))
                        elt = self.expr(e.elt)
                        if elt.kind == 'nat':
                            return V('natlist', '(map (fun co_ => %s) (filter (fun co_ => %s) %s))' % (elt.g, test, it.g))
                    finally:
                        if saved is None:
                            del self.env[var]
                        else:
                            self.env[var] = saved
            self.fail('unsupported comprehension', e)
        if isinstance(e, ast.Call):
            fn = _u(e.func)
            kw = {k.arg: k.value for k in e.keywords}
            if fn == 'copy.copy' and len(e.args) == 1 and not kw:
                return self.expr(e.args[0])
            if fn == 'set' and len(e.args) == 1 and isinstance(e.args[0], ast.Constant) and e.args[0].value in TAG and len(e.args[0].value) == 1:
                return V('ctaglist', '[%s]' % TAG[e.args[0].value])
            if isinstance(e.func, ast.Attribute) and e.func.attr == 'union' and len(e.args) == 1 and not kw:
                a, b = self.expr(e.func.value), self.expr(e.args[0])
                if a.kind == 'ctaglist' and b.kind == 'ctaglist':
                    return V('ctaglist', '(%s ++ %s)' % (a.g, b.g))
            if fn == 'sp.vstack' and len(e.args) == 1 and set(kw) <= {'format'}:
                parts = self.seq_parts(e.args[0])
                if parts and all(p.kind == 'mat' for p in parts):
                    return V('mat', '(' + ' ++ '.join(p.g for p in parts) + ')', parts[0].ncols)
            if fn == 'sp.hstack' and len(e.args) == 1 and set(kw) <= {'format'}:
                parts = self.seq_parts(e.args[0])
                if parts and all(p.kind == 'mat' for p in parts):
                    nc = None
                    if all(p.ncols is not None for p in parts):
                        nc = '(' + ' + '.join(p.ncols for p in parts) + ')'
                    return V('mat', '(hcat [' + '; '.join(p.g for p in parts) + '])', nc)
            if fn in ('np.hstack', 'np.concatenate') and len(e.args) == 1 and not kw:
                parts = self.seq_parts(e.args[0])
                if parts is not None:
                    if parts and all(p.kind == 'vec' for p in parts):
                        return V('vec', '(' + ' ++ '.join(p.g for p in parts) + ')')
                else:
                    v = self.expr(e.args[0])
                    if v.kind == 'natlistlist':
                        return V('natlist', '(concat %s)' % v.g)
            if fn == 'np.zeros' and (len(e.args) == 1 and not kw or not e.args and set(kw) == {'shape'}):
                return V('vec', '(repeat tzero %s)' % self.nat(e.args[0] if e.args else kw['shape']).g)
            if fn == 'np.ones' and len(e.args) == 1 and not kw:
                return V('vec', '(repeat tone %s)' % self.nat(e.args[0]).g)
            if fn == 'np.arange' and len(e.args) == 2 and not kw:
                return V('natlist', '(arange %s %s)' % (self.nat(e.args[0]).g, self.nat(e.args[1]).g))
            if fn == 'len' and len(e.args) == 1 and not kw:
                v = self.expr(e.args[0])
                if v.kind in ('vec', 'natlist', 'conelist', 'sepconelist', 'natlistlist'):
                    return V('nat', '(length %s)' % v.g)
            if fn == 'np.count_nonzero' and len(e.args) == 1 and not kw:
                v = self.expr(e.args[0])
                if v.kind == 'sel':
                    return V('nat', '(count_true %s)' % v.g)
            if fn == 'int' and len(e.args) == 1 and isinstance(e.args[0], ast.Call) and _u(e.args[0].func) == 'np.sum' and len(e.args[0].args) == 1:
                v = self.expr(e.args[0].args[0])
                if v.kind == 'sel':
                    return V('nat', '(count_true %s)' % v.g)
            if fn == 'Cone' and not kw and len(e.args) in (2, 3):
                t, ln = self.ctag(e.args[0]), self.nat(e.args[1])
                if len(e.args) == 2:
                    return V('cone', '(%s, %s)' % (t.g, ln.g))
                d = e.args[2]
                if isinstance(d, ast.Dict) and len(d.keys) == 1 and isinstance(d.keys[0], ast.Constant) and d.keys[0].value == 'col mapping':
                    cm = self.expr(d.values[0])
                    if cm.kind == 'natlist':
                        return V('sepcone', '(%s, %s, %s)' % (t.g, ln.g, cm.g))
            if fn == 'sp.csc_matrix' and len(e.args) == 1 and set(kw) == {'shape'}:
                a = e.args[0]
                if isinstance(a, ast.Tuple) and len(a.elts) == 2 and isinstance(a.elts[1], ast.Tuple) and len(a.elts[1].elts) == 2 \
                        and isinstance(kw['shape'], ast.Tuple) and len(kw['shape'].elts) == 2:
                    vals, rows, cols_ = self.expr(a.elts[0]), self.expr(a.elts[1].elts[0]), self.expr(a.elts[1].elts[1])
                    nr, nc = self.nat(kw['shape'].elts[0]), self.nat(kw['shape'].elts[1])
                    if vals.kind == 'vec' and rows.kind == 'natlist' and cols_.kind == 'natlist':
                        return V('mat', '(coo_matrix tzero tplus %s %s %s %s %s)' % (vals.g, rows.g, cols_.g, nr.g, nc.g), nc.g)
            self.fail('unsupported call', e)
        self.fail('unsupported expression', e)

    def cond(self, t):
        if isinstance(t, ast.Compare) and len(t.ops) == 1:
            op, l, r = t.ops[0], t.left, t.comparators[0]
            if isinstance(op, (ast.In, ast.NotIn)):
                a = self.ctag(l)
                if isinstance(r, ast.Set):
                    b = self.expr(r)
                else:
                    b = self.expr(r)
                if b.kind != 'ctaglist':
                    self.fail('membership in something that is not a set of cone types', t)
                g = '(existsb (ctag_eqb %s) %s)' % (a.g, b.g)
                return g if isinstance(op, ast.In) else '(negb %s)' % g
            if isinstance(op, ast.Eq):
                a = self.expr(l)
                if a.kind == 'ctag':
                    return '(ctag_eqb %s %s)' % (a.g, self.ctag(r).g)
                if a.kind == 'nat':
                    return '(Nat.eqb %s %s)' % (a.g, self.nat(r).g)
            if isinstance(op, (ast.Gt, ast.Lt, ast.GtE, ast.LtE)):
                a, b = self.nat(l), self.nat(r)
                return {ast.Gt: '(Nat.ltb %s %s)' % (b.g, a.g), ast.Lt: '(Nat.ltb %s %s)' % (a.g, b.g),
                        ast.GtE: '(Nat.leb %s %s)' % (b.g, a.g), ast.LtE: '(Nat.leb %s %s)' % (a.g, b.g)}[type(op)]
        self.fail('unsupported test', t)

    # ------------------------------------------------------------------ statements
    def assigned(self, stmts):
        """python (pseudo-)names assigned by a statement list, in order of first assignment"""
        out = []

        def add(n):
            if n not in out:
                out.append(n)
        for s in stmts:
            if isinstance(s, ast.Assign) and len(s.targets) == 1:
                t = s.targets[0]
                if isinstance(t, ast.Name):
                    add(t.id)
                elif isinstance(t, ast.Tuple) and all(isinstance(x, ast.Name) for x in t.elts):
                    [add(x.id) for x in t.elts]
                elif self.slot(t):
                    add(self.slot(t))
                elif self.cone_elem(t):
                    add('@elem')
                else:
                    self.fail('unsupported assignment target', s)
            elif isinstance(s, ast.AugAssign) and isinstance(s.target, ast.Name):
                add(s.target.id)
            elif isinstance(s, ast.Expr) and isinstance(s.value, ast.Call) and isinstance(s.value.func, ast.Attribute) and s.value.func.attr == 'append':
                tgt = s.value.func.value
                add(tgt.id if isinstance(tgt, ast.Name) else (self.slot(tgt) or self.fail('unsupported append target', s)))
            elif isinstance(s, ast.If):
                [add(n) for n in self.assigned(s.body)]
                [add(n) for n in self.assigned(s.orelse)]
            elif isinstance(s, ast.For):
                [add(n) for n in self.assigned(s.body)]
            elif isinstance(s, ast.Expr) and isinstance(s.value, ast.Constant):
                pass
            else:
                self.fail('unsupported statement', s)
        return out

    def gname(self, n):
        return self.loopK[2] if n == '@elem' else n

    def bind(self, n, v):
        """after `let n := v.g in`, n denotes a variable named n"""
        if n == '@elem':
            return
        self.env[n] = V(v.kind, n, (n + '_ncols') if False else v.ncols, v.base)

    def stmts(self, body, ind):
        """returns the text of nested lets (each line ends with `in`); updates env"""
        out = ''
        pad = ' ' * ind
        for s in body:
            if isinstance(s, ast.Expr) and isinstance(s.value, ast.Constant):
                continue
            if isinstance(s, ast.Assign) and len(s.targets) == 1:
                t = s.targets[0]
                # aug_data = [[], [], []]
                if isinstance(t, ast.Name) and isinstance(s.value, ast.List) and s.value.elts and all(isinstance(x, ast.List) and not x.elts for x in s.value.elts):
                    for k in range(len(s.value.elts)):
                        self.env['%s_%d' % (t.id, k)] = V('empty', '[]')
                    continue
                if isinstance(t, ast.Name) and isinstance(s.value, ast.List) and not s.value.elts:
                    self.env[t.id] = V('empty', '[]')
                    continue
                if isinstance(t, ast.Name) and isinstance(s.value, ast.Call) and _u(s.value.func) == 'build_cone_type_selectors' and len(s.value.args) == 1:
                    k = self.expr(s.value.args[0])
                    if k.kind != 'conelist':
                        self.fail('selectors of something that is not a cone list', s)
                    self.env[t.id] = V('sels', k.g)
                    continue
                if isinstance(t, ast.Tuple) and isinstance(s.value, ast.Tuple) and len(t.elts) == len(s.value.elts) and all(isinstance(x, ast.Name) for x in t.elts):
                    vals = [self.expr(x) for x in s.value.elts]
                    for x, v in zip(t.elts, vals):
                        out += pad + 'let %s := %s in\n' % (x.id, v.g)
                    for x, v in zip(t.elts, vals):
                        self.bind(x.id, v)
                    continue
                if isinstance(t, ast.Tuple) and isinstance(s.value, ast.Call):
                    out += self.call_assign(t, s.value, pad)
                    continue
                name = t.id if isinstance(t, ast.Name) else (self.slot(t) or ('@elem' if self.cone_elem(t) else None))
                if name is None:
                    self.fail('unsupported assignment target', s)
                v = self.expr(s.value)
                if name == '@elem' and v.kind != 'cone':
                    self.fail('a cone list element must be assigned a cone', s)
                if v.kind == 'sel':
                    self.fail('selectors may not be stored', s)
                out += pad + 'let %s := %s in\n' % (self.gname(name), v.g)
                self.bind(name, v)
                continue
            if isinstance(s, ast.AugAssign) and isinstance(s.target, ast.Name) and isinstance(s.op, ast.Add):
                cur = self.expr(s.target)
                v = self.nat(s.value)
                if cur.kind != 'nat':
                    self.fail('+= on something that is not an integer', s)
                out += pad + 'let %s := %s + %s in\n' % (s.target.id, cur.g, v.g)
                self.bind(s.target.id, V('nat', None))
                continue
            if isinstance(s, ast.Expr) and isinstance(s.value, ast.Call) and isinstance(s.value.func, ast.Attribute) and s.value.func.attr == 'append' \
                    and len(s.value.args) == 1 and not s.value.keywords:
                tgt = s.value.func.value
                name = tgt.id if isinstance(tgt, ast.Name) else self.slot(tgt)
                if name is None or name not in self.env:
                    self.fail('unsupported append target', s)
                cur, v = self.env[name], self.expr(s.value.args[0])
                if v.kind not in LISTOF or cur.kind not in ('empty', LISTOF[v.kind]):
                    self.fail('append of a %s to a %s' % (v.kind, cur.kind), s)
                out += pad + 'let %s := %s ++ [%s] in\n' % (name, cur.g, v.g)
                self.bind(name, V(LISTOF[v.kind], None))
                continue
            if isinstance(s, ast.If):
                # if x is None: x = e
                t = s.test
                if isinstance(t, ast.Compare) and isinstance(t.ops[0], ast.Is) and _u(t.comparators[0]) == 'None' and isinstance(t.left, ast.Name) \
                        and not s.orelse and len(s.body) == 1 and isinstance(s.body[0], ast.Assign) and _u(s.body[0].targets[0]) == t.left.id:
                    cur = self.env.get(t.left.id)
                    if cur is None or cur.kind != 'opt_ctaglist':
                        self.fail('`is None` on something that is not an optional argument', s)
                    v = self.expr(s.body[0].value)
                    if v.kind != 'ctaglist':
                        self.fail('default of the wrong kind', s)
                    out += pad + 'let %s := match %s with None => %s | Some d_ => d_ end in\n' % (t.left.id, cur.g, v.g)
                    self.env[t.left.id] = V('ctaglist', t.left.id)
                    continue
                # variables first assigned inside the conditional are local to it (a later use is an unknown name: fail closed)
                names = [n for n in self.assigned([s]) if n == '@elem' or n in self.env]
                out += self.ifchain(s, names, ind)
                continue
            if isinstance(s, ast.For):
                out += self.loop(s, ind)
                continue
            self.fail('unsupported statement', s)
        return out

    def tuple_of(self, names):
        gs = [self.loopK[2] if n == '@elem' else self.env[n].g for n in names]
        return gs[0] if len(gs) == 1 else '(' + ', '.join(gs) + ')'

    def pat_of(self, names):
        gs = [self.gname(n) for n in names]
        return gs[0] if len(gs) == 1 else "'(" + ', '.join(gs) + ')'

    def ifchain(self, s, names, ind):
        pad = ' ' * ind
        env0 = dict(self.env)
        kinds = {}
        txt = self.ifexpr(s, names, ind, env0, kinds)
        self.env = dict(env0)
        for n in names:
            if n != '@elem':
                if kinds[n] == 'mat':
                    self.fail('a matrix assigned inside a conditional loses its column count; not supported except as the last step', s)
                self.env[n] = V(kinds[n], n)
        return pad + 'let %s :=\n%s in\n' % (self.pat_of(names), txt)

    def ifexpr(self, s, names, ind, env0, kinds):
        pad = ' ' * ind

        def note():
            for n in names:
                if n != '@elem':
                    k = self.env[n].kind
                    if kinds.setdefault(n, k) != k and 'empty' not in (kinds[n], k):
                        self.fail('variable %s has different kinds in the branches of a conditional' % n, s)
                    if kinds[n] == 'empty':
                        kinds[n] = k

        def branch(body):
            self.env = dict(env0)
            txt = self.stmts(body, ind + 4)
            res = txt + ' ' * (ind + 4) + self.tuple_of(names)
            note()
            return res
        self.env = dict(env0)
        test = self.cond(s.test)
        then = branch(s.body)
        if len(s.orelse) == 1 and isinstance(s.orelse[0], ast.If):
            els = self.ifexpr(s.orelse[0], names, ind + 2, env0, kinds)
        else:
            els = branch(s.orelse)
        return '%s  if %s then\n%s\n%s  else\n%s' % (pad, test, then, pad, els)

    def loop(self, s, ind):
        pad = ' ' * ind
        if s.orelse:
            self.fail('for/else', s)
        it = s.iter
        if isinstance(it, ast.Call) and _u(it.func) == 'range' and len(it.args) == 1 and isinstance(it.args[0], ast.Call) and _u(it.args[0].func) == 'len' \
                and isinstance(it.args[0].args[0], ast.Name) and isinstance(s.target, ast.Name):
            lst = it.args[0].args[0].id
            L = self.expr(it.args[0].args[0])
            if L.kind != 'conelist':
                self.fail('index loop over something that is not a cone list', s)
            elem = '%s_%s' % (lst, s.target.id)
            self.loopK = (lst, s.target.id, elem)
            names = [n for n in self.assigned(s.body) if n == '@elem' or n in self.env]
            state = [n for n in names if n != '@elem']
            for n in state:
                if self.env[n].kind == 'empty':
                    pass
            env0 = dict(self.env)
            # first pass to discover the kinds of the lists that are empty at loop entry
            self.stmts(s.body, ind + 6)
            kinds = {n: self.env[n].kind for n in state}
            self.env = dict(env0)
            for n in state:
                self.env[n] = V(kinds[n], n)
            body = self.stmts(s.body, ind + 6)
            out_name = lst + '_out'
            res = '(' + ', '.join(['%s ++ [%s]' % (out_name, elem)] + [self.env[n].g for n in state]) + ')'
            init = '(' + ', '.join(['[]'] + [env0[n].g for n in state]) + ')'
            pat = "'(" + ', '.join([out_name] + state) + ')'
            self.loopK = None
            self.env = dict(env0)
            for n in state:
                self.env[n] = V(kinds[n], n)
            self.env[lst] = V('conelist', lst)
            return (pad + 'let %s :=\n' % ("'(" + ', '.join([lst] + state) + ')') +
                    pad + '  fold_left (fun st_ %s =>\n' % elem +
                    pad + '      let %s := st_ in\n' % pat + body +
                    pad + '      %s) %s %s in\n' % (res, L.g, init))
        if isinstance(s.target, ast.Name):
            L = self.expr(it)
            if L.kind != 'conelist':
                self.fail('loop over something that is not a cone list', s)
            var = s.target.id
            env0 = dict(self.env)
            self.env[var] = V('cone', var)
            state = [n for n in self.assigned(s.body) if n in env0]
            self.stmts(s.body, ind + 6)
            kinds = {n: self.env[n].kind for n in state}
            self.env = dict(env0)
            self.env[var] = V('cone', var)
            for n in state:
                self.env[n] = V(kinds[n], n)
            body = self.stmts(s.body, ind + 6)
            res = self.tuple_of(state)
            init = '(' + ', '.join(env0[n].g for n in state) + ')' if len(state) > 1 else env0[state[0]].g
            self.env = dict(env0)
            for n in state:
                self.env[n] = V(kinds[n], n)
            return (pad + 'let %s :=\n' % self.pat_of(state) +
                    pad + '  fold_left (fun st_ %s =>\n' % var +
                    pad + '      let %s := st_ in\n' % self.pat_of(state) + body +
                    pad + '      %s) %s %s in\n' % (res, L.g, init))
        self.fail('unsupported loop', s)

    def call_assign(self, t, call, pad):
        fn = _u(call.func)
        names = [x.id for x in t.elts]
        if fn == 'separate_cone_constraints' and len(call.args) == 3 and [k.arg for k in call.keywords] == ['dont_sep'] and len(names) == 4:
            A, b, K = [self.expr(x) for x in call.args]
            ds = self.expr(call.keywords[0].value)
            if (A.kind, b.kind, K.kind, ds.kind) != ('mat', 'vec', 'conelist', 'ctaglist') or A.ncols is None:
                self.fail('arguments of separate_cone_constraints', call)
            out = pad + "let '(%s, %s, %s, %s) := gen_separate %s %s %s %s (Some %s) in\n" % (names[0], names[1], names[2], names[3], A.ncols, A.g, b.g, K.g, ds.g)
            self.env[names[0]] = V('mat', names[0], '(%s + sep_total %s)' % (A.ncols, names[3]))
            self.env[names[1]] = V('vec', names[1])
            self.env[names[2]] = V('conelist', names[2])
            self.env[names[3]] = V('sepconelist', names[3])
            return out
        if fn == 'dualize_problem' and len(call.args) == 4 and not call.keywords and len(names) == 4:
            c, A, b, K = [self.expr(x) for x in call.args]
            if (c.kind, A.kind, b.kind, K.kind) != ('vec', 'mat', 'vec', 'conelist') or A.ncols is None:
                self.fail('arguments of dualize_problem', call)
            out = pad + "let '(%s, %s, %s, %s) := gen_dualize %s %s %s %s %s in\n" % (names[0], names[1], names[2], names[3], A.ncols, c.g, A.g, b.g, K.g)
            self.env[names[0]] = V('vec', names[0])
            self.env[names[1]] = V('mat', names[1], '(length %s)' % A.g)
            self.env[names[2]] = V('vec', names[2])
            self.env[names[3]] = V('conelist', names[3])
            return out
        self.fail('unsupported call in a tuple assignment', call)


def _body(f):
    return [s for s in f.body if not (isinstance(s, ast.Expr) and isinstance(s.value, ast.Constant))]


def tr_dualize(tree):
    f = _find_toplevel_func(tree, 'dualize_problem')
    if [a.arg for a in f.args.args] != ['c', 'A', 'b', 'Kp']:
        raise TranslationError('dualize_problem: signature changed')
    tr = Tr('dualize_problem')
    tr.env = {'c': V('vec', 'c'), 'A': V('mat', 'A', 'n'), 'b': V('vec', 'b'), 'Kp': V('conelist', 'Kp')}
    body = _body(f)
    if not isinstance(body[-1], ast.Return) or not isinstance(body[-1].value, ast.Tuple) or len(body[-1].value.elts) != 4:
        raise TranslationError('dualize_problem: return value changed')
    txt = tr.stmts(body[:-1], 4)
    r = [tr.expr(x) for x in body[-1].value.elts]
    if [x.kind for x in r] != ['vec', 'mat', 'vec', 'conelist']:
        raise TranslationError('dualize_problem: kinds of the returned values changed: %r' % [x.kind for x in r])
    return ('  (* reformulators.dualize_problem; n = A.shape[1] *)\n'
            '  Definition gen_dualize (n : nat) (c : list T) (A : matT) (b : list T) (Kp : list cone) : list T * matT * list T * list cone :=\n'
            + txt + '    (%s, %s, %s, %s).\n' % tuple(x.g for x in r))


def tr_separate(tree):
    f = _find_toplevel_func(tree, 'separate_cone_constraints')
    if [a.arg for a in f.args.args] != ['A', 'b', 'K', 'dont_sep'] or _u(f.args.defaults[0]) != 'None':
        raise TranslationError('separate_cone_constraints: signature changed')
    tr = Tr('separate_cone_constraints')
    tr.env = {'A': V('mat', 'A', 'n'), 'b': V('vec', 'b'), 'K': V('conelist', 'K'), 'dont_sep': V('opt_ctaglist', 'dont_sep')}
    body = _body(f)
    if not isinstance(body[-1], ast.Return) or not isinstance(body[-1].value, ast.Tuple) or len(body[-1].value.elts) != 4:
        raise TranslationError('separate_cone_constraints: return value changed')
    # the final `if running_new_var_idx > 0: ... A = sp.hstack([A, augmenting_matrix])` assigns a matrix inside a conditional: handled here
    pre, last = body[:-1], None
    if pre and isinstance(pre[-1], ast.If) and not pre[-1].orelse:
        last = pre[-1]
        pre = pre[:-1]
    txt = tr.stmts(pre, 4)
    if last is not None:
        env0 = dict(tr.env)
        test = tr.cond(last.test)
        inner = tr.stmts(last.body, 8)
        assigned = [n for n in tr.assigned(last.body) if n in env0 and env0[n].kind != 'empty' and not n.startswith('aug_data_')]
        if assigned != ['A'] or tr.env['A'].kind != 'mat':
            raise TranslationError('separate_cone_constraints: the final conditional assigns %r' % assigned)
        a_then = tr.env['A'].g
        tr.env = env0
        txt += '    let A :=\n      if %s then\n%s        %s\n      else A in\n' % (test, inner, a_then)
        tr.env['A'] = V('mat', 'A', None)
    r = [tr.expr(x) for x in body[-1].value.elts]
    if [x.kind for x in r] != ['mat', 'vec', 'conelist', 'sepconelist']:
        raise TranslationError('separate_cone_constraints: kinds of the returned values changed: %r' % [x.kind for x in r])
    return ('  (* reformulators.separate_cone_constraints; n = A.shape[1] *)\n'
            '  Definition gen_separate (n : nat) (A : matT) (b : list T) (K : list cone) (dont_sep : option (list ctag))\n'
            '    : matT * list T * list cone * list sepcone :=\n'
            + txt + '    (%s, %s, %s, %s).\n' % tuple(x.g for x in r))


def tr_primal_apply(tree):
    f = _find_func(tree, 'Mosek', '_primal_apply')
    if [a.arg for a in f.args.args] != ['c', 'A', 'b', 'K']:
        raise TranslationError('Mosek._primal_apply: signature changed')
    tr = Tr('Mosek._primal_apply')
    tr.env = {'c': V('vec', 'c'), 'A': V('mat', 'A', 'n'), 'b': V('vec', 'b'), 'K': V('conelist', 'K')}
    body = _body(f)
    s0 = body[0]
    if not (isinstance(s0, ast.Assign) and _u(s0.targets[0]) == 'inv_data' and isinstance(s0.value, ast.Dict) and [ast.literal_eval(k) for k in s0.value.keys] == ['n']):
        raise TranslationError('Mosek._primal_apply: inv_data changed')
    inv_n = tr.nat(s0.value.values[0]).g
    data = None
    keep = []
    for s in body[1:]:
        if isinstance(s, ast.Assign) and _u(s.targets[0]) == 'data' and isinstance(s.value, ast.Dict):
            data = s
        elif isinstance(s, ast.Return):
            if _u(s.value) != '(data, inv_data)':
                raise TranslationError('Mosek._primal_apply: return value changed')
        elif isinstance(s, ast.Assign) and _u(s.targets[0]) == 'K' and isinstance(s.value, ast.List):
            keep.append(('K', s))
        else:
            keep.append((None, s))
    txt = ''
    for tag, s in keep:
        if tag == 'K':
            elts = [tr.expr(x) for x in s.value.elts]
            if not all(x.kind == 'cone' for x in elts):
                raise TranslationError('Mosek._primal_apply: K is no longer a list of cones')
            txt += '    let K := [%s] in\n' % '; '.join(x.g for x in elts)
            tr.env['K'] = V('conelist', 'K')
        else:
            txt += tr.stmts([s], 4)
    if data is None:
        raise TranslationError('Mosek._primal_apply: data dictionary not found')
    d = {ast.literal_eval(k): tr.expr(v) for k, v in zip(data.value.keys, data.value.values)}
    if sorted(d) != ['A', 'K', 'b', 'c', 'sep_K'] or [d[k].kind for k in ('A', 'b', 'K', 'sep_K', 'c')] != ['mat', 'vec', 'conelist', 'sepconelist', 'vec']:
        raise TranslationError('Mosek._primal_apply: the data dictionary changed')
    return ('  (* Mosek._primal_apply; n = A.shape[1] *)\n'
            '  Definition gen_mosek_primal_apply (n : nat) (c : list T) (A : matT) (b : list T) (K : list cone) : @mosek_primal T :=\n'
            '    let inv_data_n := %s in\n' % inv_n + txt +
            '    {| mpA := %s; mpb := %s; mpK := %s; mpsep := %s; mpc := %s; mpn := inv_data_n |}.\n'
            % (d['A'].g, d['b'].g, d['K'].g, d['sep_K'].g, d['c'].g))


def tr_dual_apply(tree):
    f = _find_func(tree, 'Mosek', '_dual_apply')
    if [a.arg for a in f.args.args] != ['c', 'A', 'b', 'K']:
        raise TranslationError('Mosek._dual_apply: signature changed')
    tr = Tr('Mosek._dual_apply')
    tr.env = {'c': V('vec', 'c'), 'A': V('mat', 'A', 'n'), 'b': V('vec', 'b'), 'K': V('conelist', 'K')}
    body = _body(f)
    txt, data, cones = '', None, None
    for s in body:
        if isinstance(s, ast.Assign) and _u(s.targets[0]) == 'cones' and isinstance(s.value, ast.Dict):
            cones = {ast.literal_eval(k): tr.expr(v) for k, v in zip(s.value.keys, s.value.values)}
        elif isinstance(s, ast.Assign) and _u(s.targets[0]) == 'inv_data' and isinstance(s.value, ast.Dict):
            inv = {ast.literal_eval(k): _u(v) for k, v in zip(s.value.keys, s.value.values)}
            if inv != {'A': 'A', 'b': 'b', 'K': 'K', 'c': 'c', 'type_selectors': 'type_selectors', 'dual': 'True', 'n': 'A.shape[1]'}:
                raise TranslationError('Mosek._dual_apply: inv_data changed: %r' % inv)
            for k in ('A', 'b', 'K', 'c'):
                if tr.env[k].g != k:
                    raise TranslationError('Mosek._dual_apply: inv_data[%r] is no longer the argument' % k)
        elif isinstance(s, ast.Assign) and _u(s.targets[0]) == 'data' and isinstance(s.value, ast.Dict):
            data = {ast.literal_eval(k): _u(v) for k, v in zip(s.value.keys, s.value.values)}
        elif isinstance(s, ast.Return):
            if _u(s.value) != '(data, inv_data)':
                raise TranslationError('Mosek._dual_apply: return value changed')
        else:
            txt += tr.stmts([s], 4)
    if cones is None or sorted(cones) != ['+', 'S', 'de', 'fr'] or [cones[k].kind for k in ('+', 'S', 'de', 'fr')] != ['nat', 'natlist', 'nat', 'nat']:
        raise TranslationError('Mosek._dual_apply: the cone dimension dictionary changed')
    if data is None or sorted(data) != ['G', 'cone_dims', 'f', 'h'] or data['cone_dims'] != 'cones':
        raise TranslationError('Mosek._dual_apply: the data dictionary changed')
    vals = {k: tr.expr(ast.parse(data[k], mode='eval').body) for k in ('f', 'G', 'h')}
    if [vals[k].kind for k in ('f', 'G', 'h')] != ['vec', 'mat', 'vec']:
        raise TranslationError('Mosek._dual_apply: kinds of the data changed')
    return ('  (* Mosek._dual_apply; n = A.shape[1] *)\n'
            '  Definition gen_mosek_dual_apply (n : nat) (c : list T) (A : matT) (b : list T) (K : list cone) : @mosek_dual T :=\n' + txt +
            '    {| mdf := %s; mdG := %s; mdh := %s;\n       md_pos := %s; md_soc := %s;\n       md_de := %s; md_fr := %s |}.\n'
            % (vals['f'].g, vals['G'].g, vals['h'].g, cones['+'].g, cones['S'].g, cones['de'].g, cones['fr'].g))


def gen_mforms(repo):
    t1 = ast.parse(_src(repo, 'sageopt/coniclifts/reformulators.py'))
    t2 = ast.parse(_src(repo, 'sageopt/coniclifts/problems/solvers/mosek.py'))
    return ('(* GENERATED by harness/translator/mforms_tr.py from sageopt/coniclifts/reformulators.py and problems/solvers/mosek.py *)\n'
            'From Coq Require Import List Bool Arith.\nFrom SageVerif Require Import Model.SolverForms Model.FormIdioms Gen.GenForms.\nImport ListNotations.\n\n'
                        'Section GenMosekForms.\n  Context {T : Type} (tzero tone : T) (topp : T -> T) (tplus : T -> T -> T).\n'
            '  Local Notation matT := (list (list T)).\n  Local Notation hcat := (@hcat T).\n  Local Notation transpose := (@transpose T).\n'
            '  Local Notation cols := (@cols T).\n  Local Notation negm := (@negm T).\n\n'
            + tr_dualize(t1) + '\n' + tr_separate(t1) + '\n' + tr_primal_apply(t2) + '\n' + tr_dual_apply(t2) + 'End GenMosekForms.\n')
