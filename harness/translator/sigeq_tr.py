"""Fail-closed translation of Signomial.query_coeff and Signomial.__eq__ (symbolic/signomials.py) into Gallina (Gen/GenSigEq.v).
A Signomial with numeric coefficients is the list of its (exponent row, coefficient) pairs — the items of its alpha_c dict, whose keys are
unique — so `for k in self.alpha_c: v = self.alpha_c[k]` ranges over the pairs, `tup in self.alpha_c` / `self.alpha_c[tup]` are a lookup by row
(dict_lookup below, rows compared with qrow_eqb), np.round(a, decimals=D) is Model/Signomial.round_row (D is tied by Gen/GenConsts.v).  The
guards of __eq__ on the operand's class, the coefficient dtype and the type of alpha select the numeric case this model describes and are
checked for their text only.  The early `return False` inside the two loops is translated structurally (a loop that returns False as soon
as its test fires and falls through otherwise is a forallb of the negated test); the tolerance literal becomes its exact decimal value."""
import ast
from decimal import Decimal
from fractions import Fraction

from harness.translator.tables import TranslationError, _src, _find_func


def _u(e):
    return ast.unparse(e)


def _body(f):
    return [s for s in f.body if not (isinstance(s, ast.Expr) and isinstance(s.value, ast.Constant))]


def expect(c, what):
    if not c:
        raise TranslationError('Signomial equality: ' + what)


def tr_query(tree):
    f = _find_func(tree, 'Signomial', 'query_coeff')
    b = [_u(s) for s in _body(f)]
    expect(b == ['tup = tuple(np.round(a, decimals=__EXPONENT_VECTOR_DECIMAL_POINTS__))',
                 'if tup in self.alpha_c:\n    return self.alpha_c[tup]\nelse:\n    return 0'], 'query_coeff: body changed: %r' % b)
    return ('Definition dict_lookup (alpha_c : qsig) (k : qrow) : option Q :=\n'
            '  match find (fun t => qrow_eqb (fst t) k) alpha_c with Some t => Some (snd t) | None => None end.\n\n'
            '(* Signomial.query_coeff *)\nDefinition gen_query_coeff (self_alpha_c : qsig) (a : qrow) : Q :=\n'
            '  let tup := round_row a in\n'
            '  match dict_lookup self_alpha_c tup with Some v => v | None => 0 end.\n')


def loop(s, me, other):
    """for k in <me>.alpha_c: v = <me>.alpha_c[k]; w = <other>.query_coeff(np.array(k)); if abs(v - w) > TOL: return False"""
    expect(isinstance(s, ast.For) and _u(s.target) == 'k' and _u(s.iter) == '%s.alpha_c' % me and not s.orelse and len(s.body) == 3, '__eq__: loop frame changed: ' + _u(s)[:80])
    a, b, c = s.body
    expect(isinstance(a, ast.Assign) and isinstance(a.targets[0], ast.Name) and _u(a.value) == '%s.alpha_c[k]' % me, '__eq__: ' + _u(a))
    v = a.targets[0].id
    expect(isinstance(b, ast.Assign) and isinstance(b.targets[0], ast.Name) and _u(b.value) == '%s.query_coeff(np.array(k))' % other, '__eq__: ' + _u(b))
    w = b.targets[0].id
    expect(isinstance(c, ast.If) and not c.orelse and [_u(x) for x in c.body] == ['return False'], '__eq__: ' + _u(c)[:80])
    t = c.test
    ok = isinstance(t, ast.Compare) and len(t.ops) == 1 and isinstance(t.ops[0], (ast.Gt, ast.GtE)) and isinstance(t.comparators[0], ast.Constant) \
        and isinstance(t.comparators[0].value, float) and _u(t.left) in ('abs(%s - %s)' % (v, w), 'abs(%s - %s)' % (w, v))
    expect(ok, '__eq__: test changed: ' + _u(t))
    tol = Fraction(Decimal(repr(t.comparators[0].value)))
    lhs = 'Qabs (%s)' % ('v_ - w_' if _u(t.left) == 'abs(%s - %s)' % (v, w) else 'w_ - v_')
    fires = ('negb (Qle_bool (%s) (%d # %d))' % (lhs, tol.numerator, tol.denominator)) if isinstance(t.ops[0], ast.Gt) \
        else ('Qle_bool (%d # %d) (%s)' % (tol.numerator, tol.denominator, lhs))
    me_g, other_g = ('self_alpha_c', 'other_alpha_c') if me == 'self' else ('other_alpha_c', 'self_alpha_c')
    return ('forallb (fun kv_ => let k := fst kv_ in let v_ := snd kv_ in let w_ := gen_query_coeff %s k in negb (%s)) %s' % (other_g, fires, me_g))


def tr_eq(tree):
    f = _find_func(tree, 'Signomial', '__eq__')
    b = _body(f)
    expect(len(b) == 7, '__eq__: frame changed')
    expect(_u(b[0]) == 'if not isinstance(other, Signomial):\n    return False', '__eq__: class guard changed')
    g = b[1]
    expect(isinstance(g, ast.If) and not g.orelse and [_u(x) for x in g.body] == ['return False'] and _u(g.test) in ('self._m != other._m', 'self.m != other.m', 'other._m != self._m'),
           '__eq__: term-count guard changed: ' + _u(g)[:80])
    expect(_u(b[2]) == 'if self.c.dtype not in __NUMERIC_TYPES__ or other.c.dtype not in __NUMERIC_TYPES__:\n    return False', '__eq__: dtype guard changed')
    expect(_u(b[3]) == 'if not isinstance(self._alpha, np.ndarray) or not isinstance(other.alpha, np.ndarray):\n    return False', '__eq__: alpha guard changed')
    l1 = loop(b[4], 'self', 'other') if _u(b[4].iter) == 'self.alpha_c' else loop(b[4], 'other', 'self')
    l2 = loop(b[5], 'other', 'self') if _u(b[5].iter) == 'other.alpha_c' else loop(b[5], 'self', 'other')
    expect(_u(b[6]) == 'return True', '__eq__: final return changed')
    return ('(* Signomial.__eq__ for two Signomials with numeric coefficients *)\n'
            'Definition gen_sig_eq (self_alpha_c other_alpha_c : qsig) : bool :=\n'
            '  if negb (Nat.eqb (length self_alpha_c) (length other_alpha_c)) then false else\n'
            '  if negb (%s) then false else\n  if negb (%s) then false else\n  true.\n' % (l1, l2))


def gen_sigeq(repo):
    tree = ast.parse(_src(repo, 'sageopt/symbolic/signomials.py'))
    return ('(* GENERATED by harness/translator/sigeq_tr.py from sageopt/symbolic/signomials.py *)\n'
            'From Coq Require Import List Bool Arith ZArith QArith Qabs.\nFrom SageVerif Require Import Model.Signomial Gen.GenConsts.\nImport ListNotations.\n\n'
            + tr_query(tree) + '\n' + tr_eq(tree))
