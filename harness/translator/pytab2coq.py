"""Fail-closed Python-ast -> Gallina translator for decision tables and constants (DESIGN §2.3 (T)).
regenerate(repo, outdir) rewrites Gen/*.v only when their text changes (keeps make incremental)."""
import os


def write_if_changed(path, text):
    old = open(path).read() if os.path.exists(path) else None
    if old != text:
        os.makedirs(os.path.dirname(path), exist_ok=True)
        open(path, 'w').write(text)


def regenerate(repo, outdir):
    """returns {Gen file name: error text} for the files whose translation failed (those files are left as they are; every theorem
    that depends on one of them is reported as no longer checked against the current source)"""
    from harness.translator import tables
    errors = {}
    for name, fn in tables.generators().items():
        try:
            write_if_changed(os.path.join(outdir, name), fn(repo))
        except Exception as e:      # fail closed
            errors[name] = '%s: %s' % (type(e).__name__, e)
    return errors
