"""Fail-closed Python-ast -> Gallina translator for decision tables and constants (DESIGN §2.3 (T)).
regenerate(repo, outdir) rewrites Gen/*.v only when their text changes (keeps make incremental)."""
import os


def write_if_changed(path, text):
    old = open(path).read() if os.path.exists(path) else None
    if old != text:
        os.makedirs(os.path.dirname(path), exist_ok=True)
        open(path, 'w').write(text)


def regenerate(repo, outdir):
    from harness.translator import tables
    for name, text in tables.generate(repo).items():
        write_if_changed(os.path.join(outdir, name), text)
