"""Fail-closed translation of the GF(2) routines of sageopt/relaxations/poly_solution_recovery.py (mod2rref, mod2linsolve,
mod2nullspace_basis) into Gallina (Gen/GenGf2.v).

What is translated structurally: the control skeleton — the `while` loop with its condition and the variables it updates, `if`/`else`,
`for ... in enumerate(...)`, `for ... in reversed(...)`, counters (`k += 1`, `row -= 1`), index arithmetic, list appends, the order of
the statements, the arguments of the calls between the three functions (e.g. forward_only=True in mod2linsolve), the early `return None`.
What is mapped through a fixed table: each numpy ARRAY statement or expression is mapped to a list function of Model/NpIdioms.v or
Model/Gf2.v whose meaning is given there once (np.argmax of a 0/1 column, the four-statement row swap, the elimination loop over the
rows below the pivot, the slice update of back substitution, column_stack, slicing off the last column, the dot product mod 2).
Anything else raises TranslationError (the theorems that depend on Gen/GenGf2.v are then reported as no longer checked)."""
import ast

from harness.translator.tables import TranslationError, _src, _find_toplevel_func

FILE = 'sageopt/relaxations/poly_solution_recovery.py'


def _body(f):
    return [s for s in f.body if not (isinstance(s, ast.Expr) and isinstance(s.value, ast.Constant))]


def _u(s):
    return ast.unparse(s)


class Tr:
    def __init__(self, fn):
        self.fn = fn

    def fail(self, what, node=None):
        raise TranslationError('%s: %s%s' % (self.fn, what, (': ' + _u(node)[:90]) if node is not None else ''))

    # ---- scalar (nat) expressions
    def nat(self, e):
        if isinstance(e, ast.Name):
            return e.id
        if isinstance(e, ast.Constant) and isinstance(e.value, int) and not isinstance(e.value, bool) and e.value >= 0:
            return '%d' % e.value
        if isinstance(e, ast.BinOp) and isinstance(e.op, (ast.Add, ast.Sub)):
            return '(%s %s %s)' % (self.nat(e.left), '+' if isinstance(e.op, ast.Add) else '-', self.nat(e.right))
        t = _u(e)
        if t == 'np.argmax(A[h:, k])':
            return '(col_argmax k (skipn h A))'
        if isinstance(e, ast.Call) and _u(e.func) == 'len' and len(e.args) == 1 and isinstance(e.args[0], ast.Name):
            return '(length %s)' % e.args[0].id
        self.fail('unsupported index expression', e)

    def entry(self, e):
        """A[i, j] -> bit"""
        if isinstance(e, ast.Subscript) and isinstance(e.value, ast.Name) and isinstance(e.slice, ast.Tuple) and len(e.slice.elts) == 2 \
                and not any(isinstance(x, ast.Slice) for x in e.slice.elts):
            return '(bit %s (nth %s %s []))' % (self.nat(e.slice.elts[1]), self.nat(e.slice.elts[0]), e.value.id)
        self.fail('unsupported matrix entry', e)

    def cond(self, e):
        if isinstance(e, ast.BoolOp):
            return '(' + (' && ' if isinstance(e.op, ast.And) else ' || ').join(self.cond(v) for v in e.values) + ')'
        if isinstance(e, ast.UnaryOp) and isinstance(e.op, ast.Not):
            return '(negb %s)' % self.cond(e.operand)
        if isinstance(e, ast.Name):
            return e.id
        if isinstance(e, ast.Compare) and len(e.ops) == 1:
            l, r, op = e.left, e.comparators[0], type(e.ops[0])
            if isinstance(l, ast.Subscript) and isinstance(l.slice, ast.Tuple) and isinstance(r, ast.Constant) and r.value == 0:
                if op is ast.Eq:
                    return '(negb %s)' % self.entry(l)
                if op in (ast.Gt, ast.NotEq):
                    return self.entry(l)
            if _u(l) == 'pivcols[-1]' and op is ast.Eq:
                return '(Nat.eqb (last pivcols 0) %s)' % self.nat(r)
            a, b = self.nat(l), self.nat(r)
            m = {ast.Lt: '(%s <? %s)' % (a, b), ast.Gt: '(%s <? %s)' % (b, a), ast.LtE: '(%s <=? %s)' % (a, b), ast.GtE: '(%s <=? %s)' % (b, a),
                 ast.Eq: '(Nat.eqb %s %s)' % (a, b)}
            if op in m:
                return m[op]
        self.fail('unsupported condition', e)


# ---------------------------------------------------------------------------------------------- mod2rref
SWAP = ['row_h = A[h, :].copy()', 'row_imax = A[i_max, :].copy()', 'A[h, :] = row_imax', 'A[i_max, :] = row_h']
ELIM = 'for i in range(h + 1, m):\n    if A[i, k] > 0:\n        A[i, :] = np.mod(A[i, :] - A[h, :], 2)'
BACK_INNER = 'for row in range(pr - 1, -1, -1):\n    if A[row, pc] > 0:\n        A[row, pc:] = np.mod(A[row, pc:] - A[pr, pc:], 2)'


def tr_rref(tree):
    tr = Tr('mod2rref')
    f = _find_toplevel_func(tree, 'mod2rref')
    if [a.arg for a in f.args.args] != ['A', 'forward_only'] or _u(f.args.defaults[0]) != 'False' or len(f.args.defaults) != 1:
        tr.fail('signature changed')
    b = _body(f)
    if [_u(s) for s in b[:4]] != ['A = np.mod(A, 2).astype(int)', 'h, k = (0, 0)', 'm, n = A.shape', 'pivot_columns = []']:
        tr.fail('initialisation changed: %r' % [_u(s) for s in b[:4]])
    if len(b) != 7 or not isinstance(b[4], ast.While) or b[4].orelse or not isinstance(b[5], ast.If) or _u(b[6]) != 'return (A, pivot_columns)':
        tr.fail('expected: initialisation, one while loop, the back-substitution block, return (A, pivot_columns)')
    state = 'A h k pivot_columns'
    call = 'gen_fwd_loop fuel\' m n %s' % state

    def block(stmts):
        if not stmts:
            return call
        s = stmts[0]
        if [_u(x) for x in stmts[:4]] == SWAP:
            return 'let A := swap_rows h i_max A in\n        ' + block(stmts[4:])
        if _u(s) == ELIM:
            return 'let A := elim_rows_after h k A in\n        ' + block(stmts[1:])
        if isinstance(s, ast.AugAssign) and isinstance(s.target, ast.Name) and isinstance(s.op, ast.Add) and s.target.id in ('h', 'k'):
            return 'let %s := (%s + %s) in\n        ' % (s.target.id, s.target.id, tr.nat(s.value)) + block(stmts[1:])
        if isinstance(s, ast.Assign) and len(s.targets) == 1 and isinstance(s.targets[0], ast.Name) and s.targets[0].id == 'i_max':
            return 'let i_max := %s in\n        ' % tr.nat(s.value) + block(stmts[1:])
        if _u(s) == 'pivot_columns.append(k)':
            return 'let pivot_columns := pivot_columns ++ [k] in\n        ' + block(stmts[1:])
        if isinstance(s, ast.If):
            return '(if %s then\n        %s\n      else\n        %s)' % (tr.cond(s.test), block(list(s.body) + stmts[1:]), block(list(s.orelse) + stmts[1:]))
        tr.fail('unsupported statement in the elimination loop', s)
    loop = ('Fixpoint gen_fwd_loop (fuel m n : nat) (A : mat) (h k : nat) (pivot_columns : list nat) : mat * nat * nat * list nat :=\n'
            '  match fuel with\n  | O => (A, h, k, pivot_columns)\n  | S fuel\' =>\n      if %s then\n        %s\n      else (A, h, k, pivot_columns)\n  end.\n'
            % (tr.cond(b[4].test), block(list(b[4].body))))
    # back substitution
    bs = b[5]
    if _u(bs.test) != 'not forward_only' or bs.orelse or len(bs.body) != 1 or not isinstance(bs.body[0], ast.For):
        tr.fail('back-substitution block changed')
    fo = bs.body[0]
    if _u(fo.target) != '(pr, pc)' or _u(fo.iter) != 'enumerate(pivot_columns)' or [_u(x) for x in fo.body] != [BACK_INNER]:
        tr.fail('back-substitution loops changed', fo)
    return (loop +
            '(* the loop runs at most m + n times: h or k grows in every iteration *)\n'
            'Definition gen_mod2rref (forward_only : bool) (A : mat) : mat * list nat :=\n'
            '  let h := 0 in let k := 0 in\n  let m := length A in let n := ncols A in\n  let pivot_columns := @nil nat in\n'
            "  let '(A, h, k, pivot_columns) := gen_fwd_loop (m + n) m n A h k pivot_columns in\n"
            '  let A := if negb forward_only then\n'
            '             fold_left (fun A prpc => back_step A (fst prpc) (snd prpc)) (enumerate_from 0 pivot_columns) A\n           else A in\n'
            '  (A, pivot_columns).\n')


# ---------------------------------------------------------------------------------------------- mod2linsolve
def tr_linsolve(tree):
    tr = Tr('mod2linsolve')
    f = _find_toplevel_func(tree, 'mod2linsolve')
    if [a.arg for a in f.args.args] != ['A', 'b'] or f.args.defaults:
        tr.fail('signature changed')
    b = _body(f)
    head = [_u(s) for s in b[:4]]
    if head[:2] != ['m, n = A.shape', 'A0 = np.column_stack((A, b))'] or head[3] != 'augmented_rank = len(pivcols)':
        tr.fail('initialisation changed: %r' % head)
    call = b[2]
    if not (isinstance(call, ast.Assign) and _u(call.targets[0]) == '(A1, pivcols)' and isinstance(call.value, ast.Call)
            and _u(call.value.func) == 'mod2rref' and [_u(a) for a in call.value.args] == ['A0']
            and [(k.arg, _u(k.value)) for k in call.value.keywords] in ([('forward_only', 'True')], [('forward_only', 'False')], [])):
        tr.fail('call of mod2rref changed', call)
    fo = 'true' if [(k.arg, _u(k.value)) for k in call.value.keywords] == [('forward_only', 'True')] else 'false'
    if len(b) != 5 or not isinstance(b[4], ast.If):
        tr.fail('expected one final if/else')
    iff = b[4]
    if [_u(s) for s in iff.body] != ['return None']:
        tr.fail('the inconsistent branch changed')
    els = [_u(s) for s in iff.orelse]
    expect = ['b1 = A1[:n, A.shape[1]]', 'A1 = A1[:n, :A.shape[1]]', 'x = np.zeros(shape=(n,), dtype=int)', 'row = len(pivcols) - 1']
    if els[:4] != expect or els[5:] != ['return x'] or len(els) != 6:
        tr.fail('the back-substitution branch changed: %r' % els)
    loop = iff.orelse[4]
    if not (isinstance(loop, ast.For) and _u(loop.target) == 'pc' and _u(loop.iter) == 'reversed(pivcols)' and len(loop.body) == 2):
        tr.fail('the back-substitution loop changed', loop)
    upd, dec = loop.body
    if _u(upd) != 'x[pc] = (b1[row] - np.dot(A1[row, pc + 1:], x[pc + 1:])) % 2':
        tr.fail('the update of x changed', upd)
    if not (isinstance(dec, ast.AugAssign) and _u(dec.target) == 'row' and isinstance(dec.op, ast.Sub) and _u(dec.value) == '1'):
        tr.fail('the row counter changed', dec)
    cond = tr.cond(iff.test)
    return ('Definition gen_mod2linsolve (n : nat) (A : mat) (b : row) : option row :=\n'
            '  let A0 := column_stack_vec A b in\n'
            "  let '(A1, pivcols) := gen_mod2rref %s A0 in\n" % fo +
            '  let augmented_rank := length pivcols in\n'
            '  if %s then None\n  else\n' % cond +
            '    let b1 := map (fun r => nth n r false) (firstn n A1) in\n'
            '    let A1 := map (firstn n) (firstn n A1) in\n'
            '    let x := repeat false n in\n'
            '    let row := length pivcols - 1 in\n'
            '    (* x[pc] = (b1[row] - A1[row, pc+1:] . x[pc+1:]) mod 2 ; row -= 1 *)\n'
            '    Some (fst (fold_left (fun st pc => let \'(x, row) := st in\n'
            '                            (set_nth pc (xorb (nth row b1 false) (dotb (skipn (pc + 1) (nth row A1 [])) (skipn (pc + 1) x))) x, row - 1))\n'
            '                         (rev pivcols) (x, row))).\n')


# ---------------------------------------------------------------------------------------------- mod2nullspace_basis
def tr_nullspace(tree):
    tr = Tr('mod2nullspace_basis')
    f = _find_toplevel_func(tree, 'mod2nullspace_basis')
    if [a.arg for a in f.args.args] != ['arref', 'p']:
        tr.fail('signature changed')
    b = [_u(s) for s in _body(f)]
    expect = ['m, n = arref.shape', 'r = len(p)', 'F = {j for j in range(n) if j not in p}', 'N = np.zeros(shape=(n, len(F)), dtype=int)',
              'for ell, f in enumerate(F):\n    N[f, ell] = 1\n    for i in range(r):\n        N[p[i], ell] = arref[i, f]', 'return N']
    if b != expect:
        tr.fail('body changed: %r' % b)
    return ('(* column ell of N: 1 at the free column f, arref[i, f] at the pivot column p[i], written in this order *)\n'
            'Definition gen_mod2nullspace_basis (n : nat) (arref : mat) (p : list nat) : list row :=\n'
            '  let r := length p in\n'
            '  let F := filter (fun j => negb (existsb (Nat.eqb j) p)) (seq 0 n) in\n'
            '  map (fun f => fold_left (fun col i => set_nth (nth i p 0) (bit f (nth i arref [])) col) (seq 0 r) (set_nth f true (repeat false n))) F.\n')


def gen_gf2(repo):
    tree = ast.parse(_src(repo, FILE))
    # the callers: variable_sign_patterns reduces fully before enumerating the null space; mod2nullspace builds on the basis
    vsp = _u(_find_toplevel_func(tree, 'variable_sign_patterns'))
    if 'arref, p = mod2rref(alpha1)\n' not in vsp or 'N0 = mod2nullspace(arref, p)' not in vsp:
        raise TranslationError('variable_sign_patterns: the calls of mod2rref / mod2nullspace changed')
    ns = _u(_find_toplevel_func(tree, 'mod2nullspace'))
    if 'N = mod2nullspace_basis(arref, p)\n' not in ns:
        raise TranslationError('mod2nullspace: the call of mod2nullspace_basis changed')
    lsn = _u(_find_toplevel_func(tree, 'linear_system_negatives'))
    if 'x_W = mod2linsolve(alpha, b)\n' not in lsn:
        raise TranslationError('linear_system_negatives: the call of mod2linsolve changed')
    return ('(* GENERATED by harness/translator/gf2_tr.py from sageopt/relaxations/poly_solution_recovery.py *)\n'
            'From Coq Require Import List Bool Arith ZArith.\nFrom SageVerif Require Import Model.Gf2 Model.NpIdioms.\nImport ListNotations.\n\n'
            + tr_rref(tree) + '\n' + tr_linsolve(tree) + '\n' + tr_nullspace(tree) + '\n' + tr_signs(tree))


# ---------------------------------------------------------------------------------------------- linear_system_negatives / variable_sign_patterns
LSN_TABLE = [
    ('m, n = alpha.shape', None),
    ('alpha = np.mod(alpha, 2).astype(int)', '  let alpha := parmat alpha in\n  let m := length alpha in\n'),
    ('U = [i for i in range(m) if abs(moments[i]) > 0 and np.any(alpha[i, :] > 0)]',
     '  let U := filter (fun i => negb (Z.eqb (nth i moments 0%Z) 0) && existsb (fun e => e) (nth i alpha [])) (seq 0 m) in\n'),
    ('if len(U) == 0:\n    return (np.zeros(n), None, None, None)', '  if Nat.eqb (length U) 0 then LsnTrivial (repeat false n) else\n'),
    ('W = [j for j in range(n) if np.any(alpha[U, j] > 0)]',
     '  let W := filter (fun j => existsb (fun i => bit j (nth i alpha [])) U) (seq 0 n) in\n'),
    ('if len(W) == 0:\n    return (np.zeros(n), None, None, None)', '  if Nat.eqb (length W) 0 then LsnTrivial (repeat false n) else\n'),
    ('alpha = alpha[U, :]', '  let alpha := select U alpha [] in\n'),
    ('alpha = alpha[:, W]', '  let alpha := map (fun r => select W r false) alpha in\n'),
    ('b = (moments < 0)[U].astype(int)', '  let b := map (fun i => Z.ltb (nth i moments 0%Z) 0) U in\n'),
    ('x_W = mod2linsolve(alpha, b)', '  let x_W := gen_mod2linsolve (length W) alpha b in\n'),
    ('if x_W is None:\n    return (None, alpha, U, W)\nelse:\n    x = np.zeros(n)\n    x[W] = x_W\n    return (x, alpha, U, W)',
     '  match x_W with\n  | None => LsnInconsistent alpha U W\n  | Some x_W => let x := scatter n W x_W in LsnSolved x alpha U W\n  end.\n'),
]

VSP_EXPECT = ['m, n = alpha.shape', 'x0, alpha1, U, W = linear_system_negatives(alpha, moments)',
              'if x0 is None:\n    if not hueristic:\n        return []\n    else:\n        x0 = greedy_weighted_cut_negatives(alpha, moments)\n'
              '        y0 = np.ones(n)\n        y0[x0 == 1] = -1\n        return [y0]\n'
              'elif alpha1 is None:\n    y0 = np.ones(n)\n    return [y0]\n'
              'else:\n    if all_signs:\n        arref, p = mod2rref(alpha1)\n        N0 = mod2nullspace(arref, p)\n    else:\n        N0 = [np.zeros(alpha1.shape[1])]\n'
              '    signs = []\n    for vec0 in N0:\n        vec = np.zeros(n)\n        vec[W] = vec0\n        vec = np.mod(vec + x0, 2).astype(int)\n'
              '        y = np.ones(n)\n        y[vec == 1] = -1\n        signs.append(y)\n    return signs']


def tr_signs(tree):
    tr = Tr('linear_system_negatives')
    f = _find_toplevel_func(tree, 'linear_system_negatives')
    if [a.arg for a in f.args.args] != ['alpha', 'moments']:
        tr.fail('signature changed')
    got = [_u(s) for s in _body(f)]
    want = [t for t, _ in LSN_TABLE]
    if got != want:
        for i, (g, w) in enumerate(zip(got, want)):
            if g != w:
                tr.fail('statement %d changed: %r (expected %r)' % (i, g, w))
        tr.fail('number of statements changed (%d, expected %d)' % (len(got), len(want)))
    lsn = ('(* linear_system_negatives: which rows and columns enter the GF(2) system, its right-hand side, what is returned *)\n'
           'Definition gen_linear_system_negatives (n : nat) (alpha : zmat) (moments : list Z) : lsn_result :=\n'
           + ''.join(frag for _, frag in LSN_TABLE if frag))
    tr2 = Tr('variable_sign_patterns')
    g = _find_toplevel_func(tree, 'variable_sign_patterns')
    if [a.arg for a in g.args.args] != ['alpha', 'moments', 'hueristic', 'all_signs'] or [_u(d) for d in g.args.defaults] != ['False', 'True']:
        tr2.fail('signature or defaults changed')
    gotv = [_u(s) for s in _body(g)]
    if gotv != VSP_EXPECT:
        tr2.fail('body changed: %r' % gotv)
    vsp = ('(* variable_sign_patterns: true = -1; the greedy heuristic branch is a real-valued routine that is not translated (SpHeuristic) *)\n'
           'Definition gen_variable_sign_patterns (n : nat) (alpha : zmat) (moments : list Z) (hueristic all_signs : bool) : sp_result :=\n'
           '  match gen_linear_system_negatives n alpha moments with\n'
           '  | LsnInconsistent _ _ _ => if negb hueristic then SpList [] else SpHeuristic\n'
           '  | LsnTrivial _ => SpList [repeat false n]\n'
           '  | LsnSolved x0 alpha1 U W =>\n'
           "      let N0 := if all_signs then let '(arref, p) := gen_mod2rref false alpha1 in\n"
           '                                   span (length W) (gen_mod2nullspace_basis (length W) arref p)    (* arref.shape[1] = len(W): alpha1 = alpha[:, W] *)\n'
           '                else [repeat false (length W)] in\n'
           '      SpList (map (fun vec0 => xorrow (scatter n W vec0) x0) N0)\n'
           '  end.\n')
    return lsn + '\n' + vsp
