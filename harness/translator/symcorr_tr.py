"""Fail-closed translation of relaxations/symbolic_correspondences.py into Gallina (Gen/GenSymCorr.v): the tolerance constant,
row_correspondence (a loop over enumerate(alpha1) with two appended lists), relative_coeff_vector, moment_reduction_array (containment
loop with raise, loop building C_rows).  Control flow is translated structurally; array statements go through Model/SymCorrIdioms.v:
    shifted = alpha2 - row; locs = np.where(np.all(np.abs(shifted) < TOL, axis=1))   ->  close_rows TOL alpha2 row   (locs[0])
    c = np.zeros(ref.shape[0])  -> repeat 0 (length ref);   c[corr] = sc[common]  ->  fancy_assign c corr (take_idx sc common)
    np.vstack(C_rows) -> C_rows
Calls into the Signomial/Polynomial classes are calls to the models of those classes (Model/Signomial.v, Model/SymCorr.v):
    s_h * h, .alpha_c keys  -> product_rows;  classname(h.alpha + alpha_i, h.c) -> shift_sig h alpha_i;  row not in L.alpha_c -> mem_row.
The `hasattr(sc, 'value')` branch (Variable coefficients holding values) reads the same numbers and is the identity in the model."""
import ast

from harness.translator.tables import TranslationError, _src, _find_toplevel_func


def _u(e):
    return ast.unparse(e)


def _body(f):
    return [s for s in f.body if not (isinstance(s, ast.Expr) and isinstance(s.value, ast.Constant))]


def expect(cond, what):
    if not cond:
        raise TranslationError('symbolic_correspondences.py: ' + what)


def tr_tol(tree):
    for s in tree.body:
        if isinstance(s, ast.Assign) and _u(s.targets[0]) == '__EXPONENT_VECTOR_TOLERANCE__':
            v = s.value
            # 10 ** -(__EXPONENT_VECTOR_DECIMAL_POINTS__ + k)
            if isinstance(v, ast.BinOp) and isinstance(v.op, ast.Pow) and _u(v.left) == '10' and isinstance(v.right, ast.UnaryOp) and isinstance(v.right.op, ast.USub):
                e = v.right.operand
                if isinstance(e, ast.Name) and e.id == '__EXPONENT_VECTOR_DECIMAL_POINTS__':
                    k = 0
                elif isinstance(e, ast.BinOp) and isinstance(e.op, ast.Add) and _u(e.left) == '__EXPONENT_VECTOR_DECIMAL_POINTS__' \
                        and isinstance(e.right, ast.Constant) and isinstance(e.right.value, int) and e.right.value >= 0:
                    k = e.right.value
                else:
                    raise TranslationError('tolerance exponent: ' + _u(e))
                return ('(* __EXPONENT_VECTOR_TOLERANCE__ = %s *)\n' % _u(v) +
                        'Definition gen_etol : Q := 1 # Z.to_pos (10 ^ (exponent_decimal_points + %d)).\n' % k)
            if isinstance(v, ast.Constant) and isinstance(v.value, float):
                from fractions import Fraction
                from decimal import Decimal
                fr = Fraction(Decimal(repr(v.value)))
                return '(* __EXPONENT_VECTOR_TOLERANCE__ = %r *)\nDefinition gen_etol : Q := %d # %d.\n' % (v.value, fr.numerator, fr.denominator)
            raise TranslationError('__EXPONENT_VECTOR_TOLERANCE__ = ' + _u(v))
    raise TranslationError('__EXPONENT_VECTOR_TOLERANCE__ not found')


CMP = {ast.Gt: lambda a, b: '(Nat.ltb %s %s)' % (b, a), ast.GtE: lambda a, b: '(Nat.leb %s %s)' % (b, a),
       ast.Lt: lambda a, b: '(Nat.ltb %s %s)' % (a, b), ast.NotEq: lambda a, b: '(negb (Nat.eqb %s %s))' % (a, b)}


def tr_rowcorr(tree):
    f = _find_toplevel_func(tree, 'row_correspondence')
    expect([a.arg for a in f.args.args] == ['alpha1', 'alpha2'], 'row_correspondence: signature changed')
    b = _body(f)
    expect(len(b) == 4 and _u(b[0]) == 'common = []' and _u(b[1]) == 'alpha1_to_alpha2 = []' and isinstance(b[2], ast.For)
           and _u(b[3]) == 'return (common, alpha1_to_alpha2)', 'row_correspondence: frame changed')
    loop = b[2]
    expect(_u(loop.target) == '(i, row)' and _u(loop.iter) == 'enumerate(alpha1)' and not loop.orelse, 'row_correspondence: loop header changed')
    lb = _body(loop)
    txt = ''
    names = set()
    i = 0
    # array statements
    expect(_u(lb[0]) == 'shifted = alpha2 - row', 'row_correspondence: `shifted = alpha2 - row` changed: ' + _u(lb[0]))
    s1 = lb[1]
    ok = isinstance(s1, ast.Assign) and _u(s1.targets[0]) == 'locs' and isinstance(s1.value, ast.Call) and _u(s1.value.func) == 'np.where' and len(s1.value.args) == 1
    if ok:
        a = s1.value.args[0]
        ok = isinstance(a, ast.Call) and _u(a.func) == 'np.all' and len(a.args) == 1 and [(_u(k.value), k.arg) for k in a.keywords] == [('1', 'axis')]
        if ok:
            c = a.args[0]
            ok = isinstance(c, ast.Compare) and len(c.ops) == 1 and isinstance(c.ops[0], ast.Lt) and _u(c.left) == 'np.abs(shifted)' \
                and _u(c.comparators[0]) == '__EXPONENT_VECTOR_TOLERANCE__'
    expect(ok, 'row_correspondence: the closeness test changed: ' + _u(s1))
    txt += '        let locs_0 := close_rows gen_etol alpha2 row in\n'
    # if len(locs[0]) > 0: common.append(i); loc = locs[0][0]; alpha1_to_alpha2.append(loc)
    s2 = lb[2]
    expect(len(lb) == 3 and isinstance(s2, ast.If) and not s2.orelse, 'row_correspondence: loop body changed')
    t = s2.test
    expect(isinstance(t, ast.Compare) and len(t.ops) == 1 and type(t.ops[0]) in CMP and _u(t.left) == 'len(locs[0])'
           and isinstance(t.comparators[0], ast.Constant) and isinstance(t.comparators[0].value, int) and t.comparators[0].value >= 0,
           'row_correspondence: test changed: ' + _u(t))
    test = CMP[type(t.ops[0])]('(length locs_0)', '%d%%nat' % t.comparators[0].value)
    inner = ''
    env = {'i': 'i', 'loc': None}
    for s in _body(s2):
        if isinstance(s, ast.Expr) and isinstance(s.value, ast.Call) and isinstance(s.value.func, ast.Attribute) and s.value.func.attr == 'append' \
                and _u(s.value.func.value) in ('common', 'alpha1_to_alpha2') and len(s.value.args) == 1 and isinstance(s.value.args[0], ast.Name) \
                and env.get(s.value.args[0].id):
            tgt = _u(s.value.func.value)
            inner += '          let %s := %s ++ [%s] in\n' % (tgt, tgt, env[s.value.args[0].id])
        elif isinstance(s, ast.Assign) and _u(s.targets[0]) == 'loc' and isinstance(s.value, ast.Subscript) and _u(s.value.value) == 'locs[0]' \
                and isinstance(s.value.slice, ast.Constant) and s.value.slice.value == 0:
            inner += '          let loc := hd 0%nat locs_0 in\n'
            env['loc'] = 'loc'
        else:
            raise TranslationError('row_correspondence: unsupported statement ' + _u(s))
    return ('Definition gen_row_correspondence (alpha1 alpha2 : list qrow) : list nat * list nat :=\n'
            '  let common := [] in\n  let alpha1_to_alpha2 := [] in\n'
            "  let '(common, alpha1_to_alpha2) :=\n"
            '    fold_left (fun st_ i_row =>\n'
            "        let '(common, alpha1_to_alpha2) := st_ in\n        let i := fst i_row in\n        let row := snd i_row in\n" + txt +
            '        if %s then\n' % test + inner + '          (common, alpha1_to_alpha2)\n        else (common, alpha1_to_alpha2))\n'
            '      (combine (seq 0%nat (length alpha1)) alpha1) (common, alpha1_to_alpha2) in\n'
            '  (common, alpha1_to_alpha2).\n')


def tr_rcv(tree):
    f = _find_toplevel_func(tree, 'relative_coeff_vector')
    expect([a.arg for a in f.args.args] == ['s', 'reference_alpha'], 'relative_coeff_vector: signature changed')
    b = [_u(s) for s in _body(f)]
    want = ['c = np.zeros(reference_alpha.shape[0])', 'sc = s.c', "if hasattr(sc, 'value'):\n    sc = sc.value",
            'common, corr = row_correspondence(s.alpha, reference_alpha)', 'c[corr] = sc[common]', 'return c']
    expect(b == want, 'relative_coeff_vector: body changed: %r' % b)
    return ('Definition gen_relative_coeff_vector (s : qsig) (reference_alpha : list qrow) : list Q :=\n'
            '  let c := repeat 0%Q (length reference_alpha) in\n  let sc := map snd s in\n'
            "  let '(common, corr) := gen_row_correspondence (map fst s) reference_alpha in\n"
            '  let c := fancy_assign c corr (take_idx sc common) in\n  c.\n')


def tr_mra(tree):
    f = _find_toplevel_func(tree, 'moment_reduction_array')
    expect([a.arg for a in f.args.args] == ['s_h', 'h', 'L'], 'moment_reduction_array: signature changed')
    b = _body(f)
    expect(len(b) == 7, 'moment_reduction_array: frame changed')
    expect(_u(b[0]) == "if isinstance(h, Polynomial):\n    classname = Polynomial\nelif isinstance(h, Signomial):\n    classname = Signomial\nelse:\n    raise RuntimeError('Unknown argument.')",
           'moment_reduction_array: class dispatch changed')
    expect(_u(b[1]) == 'minimal_L = s_h * h', 'moment_reduction_array: minimal_L changed')
    chk = b[2]
    expect(isinstance(chk, ast.For) and _u(chk.target) == 'row' and _u(chk.iter) == 'minimal_L.alpha_c' and len(chk.body) == 1 and isinstance(chk.body[0], ast.If)
           and _u(chk.body[0].test) == 'row not in L.alpha_c' and not chk.body[0].orelse and isinstance(chk.body[0].body[-1], ast.Raise)
           and all(isinstance(x, (ast.Assign, ast.Raise)) for x in chk.body[0].body), 'moment_reduction_array: containment check changed')
    expect(_u(b[3]) == 'C_rows = []', 'moment_reduction_array: C_rows changed')
    lp = b[4]
    expect(isinstance(lp, ast.For) and _u(lp.target) == 'alpha_i' and _u(lp.iter) == 's_h.alpha' and not lp.orelse, 'moment_reduction_array: loop header changed')
    lb = [_u(s) for s in _body(lp)]
    expect(lb == ['temp_func = classname(h.alpha + alpha_i, h.c)', 'c_row = relative_coeff_vector(temp_func, L.alpha)', 'C_rows.append(c_row)'],
           'moment_reduction_array: loop body changed: %r' % lb)
    expect(_u(b[5]) == 'C = np.vstack(C_rows)' and _u(b[6]) == 'return C', 'moment_reduction_array: result changed')
    return ('Definition gen_moment_reduction_array (symbolic : bool) (n : nat) (s_h h L : qsig) : result (list (list Q)) :=\n'
            '  let minimal_L_alpha_c := product_rows symbolic n s_h h in\n'
            '  if existsb (fun row => negb (mem_row row (map fst L))) minimal_L_alpha_c then Err 1%nat else\n'
            '  let C_rows := [] in\n'
            '  let C_rows :=\n    fold_left (fun C_rows alpha_i =>\n        let temp_func := shift_sig h alpha_i in\n'
            '        let c_row := gen_relative_coeff_vector temp_func (map fst L) in\n        let C_rows := C_rows ++ [c_row] in\n        C_rows)\n'
            '      (map fst s_h) C_rows in\n  let C := C_rows in\n  Ok C.\n')


def gen_symcorr(repo):
    tree = ast.parse(_src(repo, 'sageopt/relaxations/symbolic_correspondences.py'))
    return ('(* GENERATED by harness/translator/symcorr_tr.py from sageopt/relaxations/symbolic_correspondences.py *)\n'
            'From Coq Require Import List Bool Arith ZArith QArith Qabs.\n'
            'From SageVerif Require Import Model.Signomial Model.SolverForms Model.SymCorr Model.SymCorrIdioms Gen.GenConsts.\nImport ListNotations.\n\n'
            + tr_tol(tree) + '\n' + tr_rowcorr(tree) + '\n' + tr_rcv(tree) + '\n' + tr_mra(tree))
