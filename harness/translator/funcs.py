"""Fail-closed translation of small pure decision functions into Gallina over Q / lists (DESIGN §2.3 (T), second part).

Accepted Python subset (anything else raises TranslationError):
  function body   :=  { `if` COND `:` `return` BOOL }  `return` BOOL
  COND, BOOL      :=  True | False | not COND | COND and COND | COND or COND
                   |  any(COMP) | all(COMP) | TERM (<|<=|>|>=) TERM
  COMP            :=  [COND for v in LISTPARAM]  |  (COND for v in LISTPARAM)
  TERM            :=  PARAM | float/int literal | -TERM | abs(TERM) | TERM (+|-|*) TERM | v(x)
where `v(x)` is the comprehension variable applied to the first parameter of the function: the Gallina function takes the LIST OF VALUES
g(x) instead of the list of callables (the abstraction the hand-written model Model/Solrec.v makes as well, stated in DESIGN)."""
import ast
from fractions import Fraction

from harness.translator.tables import TranslationError, _src, _find_toplevel_func


def qlit(v):
    f = Fraction(v)
    return '(%d # %d)' % (f.numerator, f.denominator)


class FnTr:
    def __init__(self, fn, point_param, list_params, scalar_params):
        self.fn, self.point, self.lists, self.scalars = fn, point_param, list_params, scalar_params
        self.bound = {}      # comprehension variable -> Gallina name of the element

    def term(self, e):
        if isinstance(e, ast.Name):
            if e.id in self.scalars:
                return e.id
            raise TranslationError('%s: unexpected name %s in a term' % (self.fn, e.id))
        if isinstance(e, ast.Constant) and isinstance(e.value, (int, float)) and not isinstance(e.value, bool):
            return qlit(e.value)
        if isinstance(e, ast.UnaryOp) and isinstance(e.op, ast.USub):
            return '(- %s)' % self.term(e.operand)
        if isinstance(e, ast.BinOp) and isinstance(e.op, (ast.Add, ast.Sub, ast.Mult)):
            op = {ast.Add: '+', ast.Sub: '-', ast.Mult: '*'}[type(e.op)]
            return '(%s %s %s)' % (self.term(e.left), op, self.term(e.right))
        if isinstance(e, ast.Call) and isinstance(e.func, ast.Name):
            if e.func.id == 'abs' and len(e.args) == 1 and not e.keywords:
                return '(Qabs %s)' % self.term(e.args[0])
            if e.func.id in self.bound and len(e.args) == 1 and not e.keywords and isinstance(e.args[0], ast.Name) \
                    and e.args[0].id == self.point:
                return self.bound[e.func.id]
        raise TranslationError('%s: unsupported term %s' % (self.fn, ast.unparse(e)))

    def cond(self, e):
        if isinstance(e, ast.Constant) and isinstance(e.value, bool):
            return 'true' if e.value else 'false'
        if isinstance(e, ast.UnaryOp) and isinstance(e.op, ast.Not):
            return '(negb %s)' % self.cond(e.operand)
        if isinstance(e, ast.BoolOp):
            op = ' && ' if isinstance(e.op, ast.And) else ' || '
            return '(' + op.join(self.cond(v) for v in e.values) + ')'
        if isinstance(e, ast.Compare) and len(e.ops) == 1:
            a, b = self.term(e.left), self.term(e.comparators[0])
            t = type(e.ops[0])
            if t is ast.Lt:
                return '(Qltb %s %s)' % (a, b)
            if t is ast.Gt:
                return '(Qltb %s %s)' % (b, a)
            if t is ast.LtE:
                return '(Qleb %s %s)' % (a, b)
            if t is ast.GtE:
                return '(Qleb %s %s)' % (b, a)
        if isinstance(e, ast.Call) and isinstance(e.func, ast.Name) and e.func.id in ('any', 'all') and len(e.args) == 1 \
                and not e.keywords and isinstance(e.args[0], (ast.ListComp, ast.GeneratorExp)):
            comp = e.args[0]
            if len(comp.generators) != 1:
                raise TranslationError('%s: nested comprehension' % self.fn)
            g = comp.generators[0]
            if g.ifs or g.is_async or not isinstance(g.target, ast.Name) or not isinstance(g.iter, ast.Name) \
                    or g.iter.id not in self.lists:
                raise TranslationError('%s: unsupported comprehension %s' % (self.fn, ast.unparse(comp)))
            v = g.target.id
            if v in self.bound or v in self.scalars or v in self.lists:
                raise TranslationError('%s: comprehension variable %s shadows a name' % (self.fn, v))
            self.bound[v] = 'val_' + v
            body = self.cond(comp.elt)
            del self.bound[v]
            return '(%s (fun val_%s => %s) %s)' % ('existsb' if e.func.id == 'any' else 'forallb', v, body, g.iter.id)
        raise TranslationError('%s: unsupported condition %s' % (self.fn, ast.unparse(e)))

    def body(self, stmts):
        stmts = [s for s in stmts if not (isinstance(s, ast.Expr) and isinstance(s.value, ast.Constant))]
        if not stmts:
            raise TranslationError('%s: falls off the end (returns None)' % self.fn)
        s = stmts[0]
        if isinstance(s, ast.Return) and s.value is not None:
            return self.cond(s.value)
        if isinstance(s, ast.If) and not s.orelse and len(s.body) == 1 and isinstance(s.body[0], ast.Return) \
                and s.body[0].value is not None:
            return '(if %s then %s else %s)' % (self.cond(s.test), self.cond(s.body[0].value), self.body(stmts[1:]))
        if isinstance(s, ast.If) and s.orelse:
            return '(if %s then %s else %s)' % (self.cond(s.test), self.body(list(s.body) + stmts[1:]),
                                                self.body(list(s.orelse) + stmts[1:]))
        raise TranslationError('%s: unsupported statement %s' % (self.fn, ast.unparse(s)[:80]))


def _defaults(f):
    """name -> default (floats only) of the positional parameters"""
    args = f.args.args
    ds = f.args.defaults
    out = {}
    for a, d in zip(args[len(args) - len(ds):], ds):
        if isinstance(d, ast.Constant) and isinstance(d.value, (int, float)) and not isinstance(d.value, bool):
            out[a.arg] = d.value
    return out


def _call_args(tree, caller, callee):
    """argument lists (source text) of every call of `callee` inside top-level function `caller`"""
    f = _find_toplevel_func(tree, caller)
    out = []
    for node in ast.walk(f):
        if isinstance(node, ast.Call) and isinstance(node.func, ast.Name) and node.func.id == callee:
            if node.keywords:
                raise TranslationError('%s calls %s with keyword arguments' % (caller, callee))
            out.append([ast.unparse(a) for a in node.args])
    return out


def gen_solrec(repo):
    sig_tree = ast.parse(_src(repo, 'sageopt/relaxations/sig_solution_recovery.py'))
    poly_tree = ast.parse(_src(repo, 'sageopt/relaxations/poly_solution_recovery.py'))
    f = _find_toplevel_func(sig_tree, 'is_feasible')
    names = [a.arg for a in f.args.args]
    if names != ['x', 'greater_than_zero', 'equal_zero', 'ineq_tol', 'eq_tol'] or f.args.vararg or f.args.kwarg or f.args.kwonlyargs:
        raise TranslationError('is_feasible: signature changed: %r' % names)
    tr = FnTr('is_feasible', 'x', ['greater_than_zero', 'equal_zero'], ['ineq_tol', 'eq_tol'])
    body = tr.body(list(f.body))
    d = _defaults(f)
    # the tolerances given to sig_solrec / poly_solrec reach is_feasible unchanged, with the constraint lists in this order
    pins = []
    for tree, caller, via in ((sig_tree, '_least_squares_solution_recovery', None), (sig_tree, '_dual_age_cone_solution_recovery', None),
                              (poly_tree, 'poly_solrec', None)):
        calls = _call_args(tree, caller, 'is_feasible')
        if not calls:
            raise TranslationError('%s no longer calls is_feasible' % caller)
        for c in calls:
            if len(c) != 5 or c[1:] != ['gts', 'eqs', 'ineq_tol', 'eq_tol']:
                raise TranslationError('%s calls is_feasible with %r' % (caller, c))
        pins.append('%s: %d call(s)' % (caller, len(calls)))
    for callee in ('_least_squares_solution_recovery', '_dual_age_cone_solution_recovery'):
        for c in _call_args(sig_tree, 'sig_solrec', callee):
            if c[-4:] != ['gts', 'eqs', 'ineq_tol', 'eq_tol']:
                raise TranslationError('sig_solrec calls %s with %r' % (callee, c))
    sd = _defaults(_find_toplevel_func(sig_tree, 'sig_solrec'))
    pd = _defaults(_find_toplevel_func(poly_tree, 'poly_solrec'))
    for nm, dd in (('is_feasible', d), ('sig_solrec', sd), ('poly_solrec', pd)):
        if 'ineq_tol' not in dd or 'eq_tol' not in dd:
            raise TranslationError('%s: default tolerances not found' % nm)
    return ('(* GENERATED by harness/translator/funcs.py from sageopt/relaxations/sig_solution_recovery.py: is_feasible *)\n'
            'From Coq Require Import List Bool QArith Qabs.\nImport ListNotations.\n'
            'Definition Qltb (a b : Q) : bool := match a ?= b with Lt => true | _ => false end.\n'
            'Definition Qleb (a b : Q) : bool := match a ?= b with Gt => false | _ => true end.\n'
            '(* the lists hold the VALUES g(x) of the constraint functions at the candidate *)\n'
            'Definition gen_is_feasible (greater_than_zero equal_zero : list Q) (ineq_tol eq_tol : Q) : bool :=\n  '
            + body + '.\n'
            '(* default tolerances (exact values of the float literals): is_feasible, sig_solrec, poly_solrec *)\n'
            'Definition default_tols : list (Q * Q) := [(%s, %s); (%s, %s); (%s, %s)].\n'
            % (qlit(d['ineq_tol']), qlit(d['eq_tol']), qlit(sd['ineq_tol']), qlit(sd['eq_tol']), qlit(pd['ineq_tol']), qlit(pd['eq_tol']))
            + '(* call sites pinned: %s *)\n' % '; '.join(pins))
