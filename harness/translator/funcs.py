"""Fail-closed translation of small pure decision functions into Gallina over Q / lists (DESIGN §2.3 (T), second part).

Accepted Python subset (anything else raises TranslationError):
  function body   :=  { `if` COND `:` `return` BOOL }  `return` BOOL
  COND, BOOL      :=  True | False | not COND | COND and COND | COND or COND
                   |  any(COMP) | all(COMP) | TERM (<|<=|>|>=) TERM
  COMP            :=  [COND for v in LISTPARAM]  |  (COND for v in LISTPARAM)
  TERM            :=  PARAM | float/int literal | -TERM | abs(TERM) | TERM (+|-|*) TERM | v(x)
where `v(x)` is the comprehension variable applied to the first parameter of the function: the Gallina function takes the LIST OF VALUES
g(x) instead of the list of callables (the abstraction the hand-written model Model/Solrec.v makes as well, stated in DESIGN)."""
import ast
from fractions import Fraction

from harness.translator.tables import TranslationError, _src, _find_toplevel_func


def qlit(v):
    f = Fraction(v)
    return '(%d # %d)' % (f.numerator, f.denominator)


class FnTr:
    def __init__(self, fn, point_param, list_params, scalar_params):
        self.fn, self.point, self.lists, self.scalars = fn, point_param, list_params, scalar_params
        self.bound = {}      # comprehension variable -> Gallina name of the element

    def term(self, e):
        if isinstance(e, ast.Name):
            if e.id in self.scalars:
                return e.id
            raise TranslationError('%s: unexpected name %s in a term' % (self.fn, e.id))
        if isinstance(e, ast.Constant) and isinstance(e.value, (int, float)) and not isinstance(e.value, bool):
            return qlit(e.value)
        if isinstance(e, ast.UnaryOp) and isinstance(e.op, ast.USub):
            return '(- %s)' % self.term(e.operand)
        if isinstance(e, ast.BinOp) and isinstance(e.op, (ast.Add, ast.Sub, ast.Mult)):
            op = {ast.Add: '+', ast.Sub: '-', ast.Mult: '*'}[type(e.op)]
            return '(%s %s %s)' % (self.term(e.left), op, self.term(e.right))
        if isinstance(e, ast.Call) and isinstance(e.func, ast.Name):
            if e.func.id == 'abs' and len(e.args) == 1 and not e.keywords:
                return '(Qabs %s)' % self.term(e.args[0])
            if e.func.id in self.bound and len(e.args) == 1 and not e.keywords and isinstance(e.args[0], ast.Name) \
                    and e.args[0].id == self.point:
                return self.bound[e.func.id]
        raise TranslationError('%s: unsupported term %s' % (self.fn, ast.unparse(e)))

    def cond(self, e):
        if isinstance(e, ast.Constant) and isinstance(e.value, bool):
            return 'true' if e.value else 'false'
        if isinstance(e, ast.UnaryOp) and isinstance(e.op, ast.Not):
            return '(negb %s)' % self.cond(e.operand)
        if isinstance(e, ast.BoolOp):
            op = ' && ' if isinstance(e.op, ast.And) else ' || '
            return '(' + op.join(self.cond(v) for v in e.values) + ')'
        if isinstance(e, ast.Compare) and len(e.ops) == 1:
            a, b = self.term(e.left), self.term(e.comparators[0])
            t = type(e.ops[0])
            if t is ast.Lt:
                return '(Qltb %s %s)' % (a, b)
            if t is ast.Gt:
                return '(Qltb %s %s)' % (b, a)
            if t is ast.LtE:
                return '(Qleb %s %s)' % (a, b)
            if t is ast.GtE:
                return '(Qleb %s %s)' % (b, a)
        if isinstance(e, ast.Call) and isinstance(e.func, ast.Name) and e.func.id in ('any', 'all') and len(e.args) == 1 \
                and not e.keywords and isinstance(e.args[0], (ast.ListComp, ast.GeneratorExp)):
            comp = e.args[0]
            if len(comp.generators) != 1:
                raise TranslationError('%s: nested comprehension' % self.fn)
            g = comp.generators[0]
            if g.ifs or g.is_async or not isinstance(g.target, ast.Name) or not isinstance(g.iter, ast.Name) \
                    or g.iter.id not in self.lists:
                raise TranslationError('%s: unsupported comprehension %s' % (self.fn, ast.unparse(comp)))
            v = g.target.id
            if v in self.bound or v in self.scalars or v in self.lists:
                raise TranslationError('%s: comprehension variable %s shadows a name' % (self.fn, v))
            self.bound[v] = 'val_' + v
            body = self.cond(comp.elt)
            del self.bound[v]
            return '(%s (fun val_%s => %s) %s)' % ('existsb' if e.func.id == 'any' else 'forallb', v, body, g.iter.id)
        raise TranslationError('%s: unsupported condition %s' % (self.fn, ast.unparse(e)))

    def body(self, stmts):
        stmts = [s for s in stmts if not (isinstance(s, ast.Expr) and isinstance(s.value, ast.Constant))]
        if not stmts:
            raise TranslationError('%s: falls off the end (returns None)' % self.fn)
        s = stmts[0]
        if isinstance(s, ast.Return) and s.value is not None:
            return self.cond(s.value)
        if isinstance(s, ast.If) and not s.orelse and len(s.body) == 1 and isinstance(s.body[0], ast.Return) \
                and s.body[0].value is not None:
            return '(if %s then %s else %s)' % (self.cond(s.test), self.cond(s.body[0].value), self.body(stmts[1:]))
        if isinstance(s, ast.If) and s.orelse:
            return '(if %s then %s else %s)' % (self.cond(s.test), self.body(list(s.body) + stmts[1:]),
                                                self.body(list(s.orelse) + stmts[1:]))
        raise TranslationError('%s: unsupported statement %s' % (self.fn, ast.unparse(s)[:80]))


def _defaults(f):
    """name -> default (floats only) of the positional parameters"""
    args = f.args.args
    ds = f.args.defaults
    out = {}
    for a, d in zip(args[len(args) - len(ds):], ds):
        if isinstance(d, ast.Constant) and isinstance(d.value, (int, float)) and not isinstance(d.value, bool):
            out[a.arg] = d.value
    return out


def _call_args(tree, caller, callee):
    """argument lists (source text) of every call of `callee` inside top-level function `caller`"""
    f = _find_toplevel_func(tree, caller)
    out = []
    for node in ast.walk(f):
        if isinstance(node, ast.Call) and isinstance(node.func, ast.Name) and node.func.id == callee:
            if node.keywords:
                raise TranslationError('%s calls %s with keyword arguments' % (caller, callee))
            out.append([ast.unparse(a) for a in node.args])
    return out


def gen_solrec(repo):
    sig_tree = ast.parse(_src(repo, 'sageopt/relaxations/sig_solution_recovery.py'))
    poly_tree = ast.parse(_src(repo, 'sageopt/relaxations/poly_solution_recovery.py'))
    f = _find_toplevel_func(sig_tree, 'is_feasible')
    names = [a.arg for a in f.args.args]
    if names != ['x', 'greater_than_zero', 'equal_zero', 'ineq_tol', 'eq_tol'] or f.args.vararg or f.args.kwarg or f.args.kwonlyargs:
        raise TranslationError('is_feasible: signature changed: %r' % names)
    tr = FnTr('is_feasible', 'x', ['greater_than_zero', 'equal_zero'], ['ineq_tol', 'eq_tol'])
    body = tr.body(list(f.body))
    d = _defaults(f)
    # the tolerances given to sig_solrec / poly_solrec reach is_feasible unchanged, with the constraint lists in this order
    pins = []
    for tree, caller, via in ((sig_tree, '_least_squares_solution_recovery', None), (sig_tree, '_dual_age_cone_solution_recovery', None),
                              (poly_tree, 'poly_solrec', None)):
        calls = _call_args(tree, caller, 'is_feasible')
        if not calls:
            raise TranslationError('%s no longer calls is_feasible' % caller)
        for c in calls:
            if len(c) != 5 or c[1:] != ['gts', 'eqs', 'ineq_tol', 'eq_tol']:
                raise TranslationError('%s calls is_feasible with %r' % (caller, c))
        pins.append('%s: %d call(s)' % (caller, len(calls)))
    for callee in ('_least_squares_solution_recovery', '_dual_age_cone_solution_recovery'):
        for c in _call_args(sig_tree, 'sig_solrec', callee):
            if c[-4:] != ['gts', 'eqs', 'ineq_tol', 'eq_tol']:
                raise TranslationError('sig_solrec calls %s with %r' % (callee, c))
    sd = _defaults(_find_toplevel_func(sig_tree, 'sig_solrec'))
    pd = _defaults(_find_toplevel_func(poly_tree, 'poly_solrec'))
    for nm, dd in (('is_feasible', d), ('sig_solrec', sd), ('poly_solrec', pd)):
        if 'ineq_tol' not in dd or 'eq_tol' not in dd:
            raise TranslationError('%s: default tolerances not found' % nm)
    return ('(* GENERATED by harness/translator/funcs.py from sageopt/relaxations/sig_solution_recovery.py: is_feasible *)\n'
            'From Coq Require Import List Bool QArith Qabs.\nImport ListNotations.\n'
            'Definition Qltb (a b : Q) : bool := match a ?= b with Lt => true | _ => false end.\n'
            'Definition Qleb (a b : Q) : bool := match a ?= b with Gt => false | _ => true end.\n'
            '(* the lists hold the VALUES g(x) of the constraint functions at the candidate *)\n'
            'Definition gen_is_feasible (greater_than_zero equal_zero : list Q) (ineq_tol eq_tol : Q) : bool :=\n  '
            + body + '.\n'
            '(* default tolerances (exact values of the float literals): is_feasible, sig_solrec, poly_solrec *)\n'
            'Definition default_tols : list (Q * Q) := [(%s, %s); (%s, %s); (%s, %s)].\n'
            % (qlit(d['ineq_tol']), qlit(d['eq_tol']), qlit(sd['ineq_tol']), qlit(sd['eq_tol']), qlit(pd['ineq_tol']), qlit(pd['eq_tol']))
            + '(* call sites pinned: %s *)\n' % '; '.join(pins))


# ------------------------------------------------------------------ constraint_generators.py: which constraints are kept
class SelTr:
    """symbolic execution of the body of `for g in <list>:` in the four selection functions of constraint_generators.py.
    Result: a Gallina expression of type sel over the names c (coefficient list), is_even, zero_at_origin."""
    COUNTS = {'np.count_nonzero(g.c > 0)': '(count is_pos c)', 'np.count_nonzero(g.c < 0)': '(count is_neg c)',
              'np.count_nonzero(g.c)': '(count (fun q => negb (qiszero q)) c)',
              'np.count_nonzero(g.c != 0)': '(count (fun q => negb (qiszero q)) c)'}
    KEEP = {'conv_gs.append(g * inverse_term)', 'conv_eqs.append(g * inverse_term)', 'gp_rep_polys.append(g)'}
    INVERSE = 'Signomial.from_dict({tuple(-g.alpha[pos_loc, :]): 1})'

    def __init__(self, fn):
        self.fn = fn
        self.uses = set()

    def nat(self, e, env):
        t = ast.unparse(e)
        if t in self.COUNTS:
            return self.COUNTS[t]
        if isinstance(e, ast.Name) and env.get(e.id, ('?',))[0] == 'nat':
            return env[e.id][1]
        if isinstance(e, ast.Attribute) and e.attr == 'size' and isinstance(e.value, ast.Name) and env.get(e.value.id, ('?',))[0] == 'posarray':
            return '(count is_pos c)'
        if isinstance(e, ast.Constant) and isinstance(e.value, int) and not isinstance(e.value, bool) and e.value >= 0:
            return '%d' % e.value
        raise TranslationError('%s: unsupported count expression %s' % (self.fn, t))

    def cond(self, e, env):
        t = ast.unparse(e)
        if isinstance(e, ast.Name) and env.get(e.id, ('?',))[0] == 'bool':
            return env[e.id][1]
        if t == 'g(np.zeros(g.n)) == 0':
            self.uses.add('zero_at_origin')
            return 'zero_at_origin'
        if t == 'len(g.even_locations()) == g.m':
            self.uses.add('is_even')
            return 'is_even'
        if isinstance(e, ast.BoolOp):
            op = ' && ' if isinstance(e.op, ast.And) else ' || '
            return '(' + op.join(self.cond(v, env) for v in e.values) + ')'
        if isinstance(e, ast.UnaryOp) and isinstance(e.op, ast.Not):
            return '(negb %s)' % self.cond(e.operand, env)
        if isinstance(e, ast.Compare) and len(e.ops) == 1:
            a, b = self.nat(e.left, env), self.nat(e.comparators[0], env)
            k = type(e.ops[0])
            m = {ast.Eq: '(Nat.eqb %s %s)' % (a, b), ast.NotEq: '(negb (Nat.eqb %s %s))' % (a, b), ast.GtE: '(Nat.leb %s %s)' % (b, a),
                 ast.Gt: '(Nat.ltb %s %s)' % (b, a), ast.LtE: '(Nat.leb %s %s)' % (a, b), ast.Lt: '(Nat.ltb %s %s)' % (a, b)}
            if k in m:
                return m[k]
        raise TranslationError('%s: unsupported test %s' % (self.fn, t))

    def run(self, stmts, env):
        if not stmts:
            return 'SelSkip'
        s, rest = stmts[0], stmts[1:]
        if isinstance(s, ast.Expr) and isinstance(s.value, ast.Constant):
            return self.run(rest, env)
        if isinstance(s, ast.Continue):
            return 'SelSkip'
        if isinstance(s, ast.Raise):
            if 'RuntimeError' not in ast.unparse(s):
                raise TranslationError('%s: raises something else than RuntimeError' % self.fn)
            return 'SelRaise'
        if isinstance(s, ast.Expr) and isinstance(s.value, ast.Call):
            t = ast.unparse(s.value)
            if t in self.KEEP:
                if 'inverse_term' in t and env.get('inverse_term') != ('inverse', 'ok'):
                    raise TranslationError('%s: inverse_term is not the inverse of the positive monomial' % self.fn)
                if self.run(rest, env) != 'SelSkip':
                    raise TranslationError('%s: statements after the append change the outcome' % self.fn)
                return 'SelKeep'
            if t.startswith('warnings.warn('):
                return self.run(rest, env)
            raise TranslationError('%s: unsupported call statement %s' % (self.fn, t[:60]))
        if isinstance(s, ast.Assign) and len(s.targets) == 1 and isinstance(s.targets[0], ast.Name):
            name, t = s.targets[0].id, ast.unparse(s.value)
            env2 = dict(env)
            if t in self.COUNTS:
                env2[name] = ('nat', self.COUNTS[t])
                return self.run(rest, env2)
            if t == 'len(g.even_locations()) == g.m':
                self.uses.add('is_even')
                env2[name] = ('bool', 'is_even')
                return self.run(rest, env2)
            if t == 'np.where(g.c > 0)[0]':
                env2[name] = ('posarray', None)
                return self.run(rest, env2)
            if t == 'np.where(g.c > 0)[0][0]' or (t == '%s[0]' % name and env.get(name, ('?',))[0] == 'posarray'):
                # the first positive location: IndexError when there is none
                env2[name] = ('posloc', None)
                return '(if Nat.eqb (count is_pos c) 0 then SelIndexError else %s)' % self.run(rest, env2)
            if t == self.INVERSE and env.get('pos_loc', ('?',))[0] == 'posloc':
                env2[name] = ('inverse', 'ok')
                return self.run(rest, env2)
            raise TranslationError('%s: unsupported assignment %s = %s' % (self.fn, name, t[:60]))
        if isinstance(s, ast.If):
            c = self.cond(s.test, env)
            return '(if %s then %s else %s)' % (c, self.run(list(s.body) + rest, env), self.run(list(s.orelse) + rest, env))
        raise TranslationError('%s: unsupported statement %s' % (self.fn, ast.unparse(s)[:60]))


def _loop_body(tree, fn, listname, resname):
    f = _find_toplevel_func(tree, fn)
    body = [s for s in f.body if not (isinstance(s, ast.Expr) and isinstance(s.value, ast.Constant))]
    if [a.arg for a in f.args.args] != [listname]:
        raise TranslationError('%s: signature changed' % fn)
    if len(body) != 3 or ast.unparse(body[0]) != '%s = []' % resname or ast.unparse(body[2]) != 'return %s' % resname \
            or not isinstance(body[1], ast.For) or ast.unparse(body[1].target) != 'g' or ast.unparse(body[1].iter) != listname or body[1].orelse:
        raise TranslationError('%s: expected `%s = []`, one loop `for g in %s`, `return %s`' % (fn, resname, listname, resname))
    return list(body[1].body)


def gen_congen(repo):
    tree = ast.parse(_src(repo, 'sageopt/relaxations/constraint_generators.py'))
    out = []
    for fn, listname, resname, gname, params in (
            ('valid_posynomial_inequalities', 'gs', 'conv_gs', 'gen_posy_sel', '(c : list Q)'),
            ('valid_monomial_equations', 'eqs', 'conv_eqs', 'gen_monoeq_sel', '(c : list Q)'),
            ('valid_gp_representable_poly_inequalities', 'gs', 'gp_rep_polys', 'gen_polyineq_sel', '(is_even zero_at_origin : bool) (c : list Q)'),
            ('valid_gp_representable_poly_eqs', 'eqs', 'gp_rep_polys', 'gen_polyeq_sel', '(is_even : bool) (c : list Q)')):
        tr = SelTr(fn)
        expr = tr.run(_loop_body(tree, fn, listname, resname), {})
        out.append('(* %s: what happens to one constraint g, by its coefficient vector c = g.c *)\nDefinition %s %s : sel :=\n  %s.\n'
                   % (fn, gname, params, expr))
    return ('(* GENERATED by harness/translator/funcs.py from sageopt/relaxations/constraint_generators.py *)\n'
            'From Coq Require Import List Bool Arith QArith.\nFrom SageVerif Require Import Model.Signomial Model.ConGen.\nImport ListNotations.\n'
            'Inductive sel := SelKeep | SelSkip | SelRaise | SelIndexError.\n' + ''.join(out))
