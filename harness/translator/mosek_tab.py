"""Fail-closed translation of the MOSEK interface's decision logic (mosek.py) into Gallina.  MOSEK itself cannot run in
this sandbox, so for this file the translator is the only tie between the theorems and the source:
  * Mosek._primal_parse_result / Mosek._dual_parse_result: (status, value kind, values loaded?, which MOSEK vector is read)
    as a function of the MOSEK solution status;
  * Mosek.decide_primal_vs_dual: the decision tree over ('integers' in params, 'dualize' in params, params['dualize'],
    slack_dim > A.shape[1]) and the definition of slack_dim;
  * the three dispatchers (apply, solve_via_data, parse_result) and the propagation of `form`;
  * Mosek.load_variable_values (pinned shape: x0[:n] extended by one trailing 0, indexed by the variable map).
Every function raises TranslationError on any construct it does not recognise."""
import ast

from harness.translator.tables import TranslationError, SymExec, _src, _find_func, _tok, _emit_tree

SOLSTA = {'mosek.solsta.optimal': 'MOptimal', 'mosek.solsta.integer_optimal': 'MIntegerOptimal',
          'mosek.solsta.dual_infeas_cer': 'MDualInfeasCer', 'mosek.solsta.prim_infeas_cer': 'MPrimInfeasCer'}
STATUS_TOK = {'CL_CONSTANTS.solved': 'Solved', 'CL_CONSTANTS.inaccurate': 'Inaccurate', 'CL_CONSTANTS.failed': 'Failed'}
VALUE_TOK = {'task.getprimalobj(sol)': 'VPcost', 'np.inf': 'VInf', '-np.inf': 'VNegInf', 'np.nan': 'VNan'}
LOAD_TOK = {'Mosek.load_variable_values(x0, inv_data, var_mapping)': 'true', 'dict()': 'false'}
READ_TOK = {'task.getxxslice(sol, 0, len(x0), x0)': 'ReadXX', 'task.gety(sol, x0)': 'ReadY'}


class MosekExec(SymExec):
    """SymExec + `import`, expression statements that are calls on `task` (recorded as effects, in order)."""

    def run(self, stmts, env):
        if stmts:
            s = stmts[0]
            if isinstance(s, (ast.Import, ast.ImportFrom)):
                return self.run(stmts[1:], env)
            if isinstance(s, ast.Expr) and isinstance(s.value, ast.Call):
                env2 = dict(env)
                env2['__effects__'] = env.get('__effects__', ()) + (_tok(s.value),)
                return self.run(stmts[1:], env2)
        return SymExec.run(self, stmts, env)

    def value(self, e, env):
        # right-hand sides are kept as source text; names bound earlier are NOT substituted inside calls (the
        # leaf function recognises the exact call texts), except for plain aliases
        t = _tok(e)
        if isinstance(e, ast.Name) and t in env:
            return env[t]
        if isinstance(e, ast.UnaryOp) and isinstance(e.op, ast.USub):
            return '-' + self.value(e.operand, env)
        return t


def _solsta_const(e):
    t = _tok(e)
    if t in SOLSTA:
        return t
    raise TranslationError('unexpected MOSEK solution status constant: ' + t)


def _parse_fn(tree, name, expect_prefix):
    f = _find_func(tree, 'Mosek', name)
    body = [s for s in f.body if not (isinstance(s, ast.Expr) and isinstance(s.value, ast.Constant))]
    # the statements before the decision chain are pinned (they choose the solution type and read the status)
    chain_at = None
    for i, s in enumerate(body):
        if isinstance(s, ast.If) and 'solution_status' in ast.unparse(s.test):
            chain_at = i
            break
    if chain_at is None:
        raise TranslationError('%s: decision chain over solution_status not found' % name)
    prefix = [ast.unparse(s) for s in body[:chain_at]]
    if prefix != expect_prefix:
        raise TranslationError('%s: statements before the decision chain changed: %r' % (name, prefix))
    se = MosekExec(_solsta_const)
    dt = se.run(body[chain_at:], {'variable_values': 'dict()'})

    def cond(c):
        kind, subj, consts = c
        if subj != 'solution_status':
            raise TranslationError('%s: test on %s, expected solution_status' % (name, subj))
        return '(existsb (solsta_eqb s) [%s])' % '; '.join(SOLSTA[k] for k in consts)

    def leaf(env):
        r = env.get('__return__')
        if not r or len(r) != 3:
            raise TranslationError('%s must return a 3-tuple' % name)
        st, vv, val = r
        eff = env.get('__effects__', ())
        if st not in STATUS_TOK or vv not in LOAD_TOK or val not in VALUE_TOK:
            raise TranslationError('%s: unrecognised result tokens %r' % (name, r))
        if len(eff) > 1 or any(e not in READ_TOK for e in eff):
            raise TranslationError('%s: unrecognised calls on the task: %r' % (name, eff))
        rd = READ_TOK[eff[0]] if eff else 'ReadNone'
        if LOAD_TOK[vv] == 'true':
            # the vector handed to load_variable_values must be the one that was read, of length inv_data['n']
            if env.get('x0') != 'np.array(x0)':
                raise TranslationError('%s: x0 is not np.array(x0) where values are loaded (%r)' % (name, env.get('x0')))
        return '(%s, %s, %s, %s)' % (STATUS_TOK[st], VALUE_TOK[val], LOAD_TOK[vv], rd)
    return _emit_tree(dt, leaf, cond), dt


def _x0_alloc_ok(tree, name):
    """in the loading branch x0 is allocated as [0.0] * inv_data['n'] before the task call"""
    f = _find_func(tree, 'Mosek', name)
    txt = ast.unparse(f)
    if "x0 = [0.0] * inv_data['n']" not in txt:
        raise TranslationError('%s: allocation of x0 changed' % name)


def _dispatch(tree, name, prim, dual, subject):
    """the function must be:  if <subject> == 'primal': X = Mosek.<prim>(...) else: X = Mosek.<dual>(...) ; return X"""
    f = _find_func(tree, 'Mosek', name)
    ifs = [s for s in f.body if isinstance(s, ast.If) and subject in ast.unparse(s.test)]
    if len(ifs) != 1:
        raise TranslationError('%s: dispatch on %s not found' % (name, subject))
    s = ifs[0]
    if ast.unparse(s.test) != "%s == 'primal'" % subject:
        raise TranslationError('%s: dispatch test changed: %s' % (name, ast.unparse(s.test)))
    if len(s.body) != 1 or len(s.orelse) != 1 or ('Mosek.%s(' % prim) not in ast.unparse(s.body[0]) \
            or ('Mosek.%s(' % dual) not in ast.unparse(s.orelse[0]):
        raise TranslationError('%s: dispatch branches changed' % name)
    lhs_a = ast.unparse(s.body[0]).split('=')[0].strip()
    lhs_b = ast.unparse(s.orelse[0]).split('=')[0].strip()
    if lhs_a != lhs_b:
        raise TranslationError('%s: the two branches bind different names' % name)


def _decide(tree):
    f = _find_func(tree, 'Mosek', 'decide_primal_vs_dual')
    body = [s for s in f.body if not (isinstance(s, ast.Expr) and isinstance(s.value, ast.Constant))]

    def form_const(e):
        if isinstance(e, ast.Constant) and e.value in ('primal', 'dual'):
            return e.value
        raise TranslationError('decide_primal_vs_dual: unexpected constant ' + ast.unparse(e))

    class DExec(SymExec):
        def cond(self, test, env):
            t = ast.unparse(test)
            if t == "'integers' in params":
                return ('flag', 'has_integers', None)
            if t == "'dualize' in params":
                return ('flag', 'has_dualize', None)
            if t == "params['dualize']":
                return ('flag', 'dualize_val', None)
            if isinstance(test, ast.Compare) and len(test.ops) == 1:
                l, r = self.subject(test.left, env), self.subject(test.comparators[0], env)
                pair = (l, r)
                op = type(test.ops[0]).__name__
                if pair == ('slack_dim', 'A.shape[1]') and op in ('Gt', 'GtE', 'Lt', 'LtE'):
                    return ('cmp', {'Gt': 'Nat.ltb ncols slack_dim', 'GtE': 'Nat.leb ncols slack_dim',
                                    'Lt': 'Nat.ltb slack_dim ncols', 'LtE': 'Nat.leb slack_dim ncols'}[op], None)
                if pair == ('A.shape[1]', 'slack_dim') and op in ('Gt', 'GtE', 'Lt', 'LtE'):
                    return ('cmp', {'Lt': 'Nat.ltb ncols slack_dim', 'LtE': 'Nat.leb ncols slack_dim',
                                    'Gt': 'Nat.ltb slack_dim ncols', 'GtE': 'Nat.leb slack_dim ncols'}[op], None)
            raise TranslationError('decide_primal_vs_dual: unsupported test ' + t)

        def value(self, e, env):
            if isinstance(e, ast.Constant) and e.value in ('primal', 'dual'):
                return e.value
            return _tok(e)

    # slack_dim: pinned shape, the set of cone types is read from the source
    slack = [s for s in body if isinstance(s, ast.Assign) and _tok(s.targets[0]) == 'slack_dim']
    if len(slack) != 1:
        raise TranslationError('decide_primal_vs_dual: slack_dim not found')
    v = slack[0].value
    ok = (isinstance(v, ast.Call) and _tok(v.func) == 'sum' and len(v.args) == 1
          and isinstance(v.args[0], (ast.ListComp, ast.GeneratorExp)))
    if not ok:
        raise TranslationError('decide_primal_vs_dual: slack_dim is not a sum over a comprehension')
    comp = v.args[0]
    g = comp.generators[0]
    if not (_tok(comp.elt) == '%s.len' % _tok(g.target) and _tok(g.iter) == 'K' and len(g.ifs) == 1 and len(comp.generators) == 1):
        raise TranslationError('decide_primal_vs_dual: slack_dim comprehension changed')
    cnd = g.ifs[0]
    if not (isinstance(cnd, ast.Compare) and isinstance(cnd.ops[0], ast.In) and _tok(cnd.left) == '%s.type' % _tok(g.target)
            and isinstance(cnd.comparators[0], (ast.Set, ast.List, ast.Tuple))):
        raise TranslationError('decide_primal_vs_dual: slack_dim filter changed')
    types = sorted(ast.literal_eval(e) for e in cnd.comparators[0].elts)
    tagmap = {'0': 'T0', '+': 'TPos', 'S': 'TSoc', 'e': 'TExp', 'de': 'TDExp', 'fr': 'TFree', 'P': 'TPsd', 'pow': 'TPow'}
    for t in types:
        if t not in tagmap:
            raise TranslationError('decide_primal_vs_dual: unknown cone type %r' % t)
    rest = [s for s in body if s is not slack[0]]
    dt = DExec(form_const).run(rest, {})

    def cond(c):
        return c[1] if c[0] == 'flag' else '(%s)' % c[1]

    def leaf(env):
        r = env.get('__return__')
        if not r or r[0] not in ('primal', 'dual'):
            raise TranslationError('decide_primal_vs_dual: unexpected return %r' % (r,))
        return 'true' if r[0] == 'dual' else 'false'
    return _emit_tree(dt, leaf, cond), [tagmap[t] for t in types]


def gen_mosek(repo):
    tree = ast.parse(_src(repo, 'sageopt/coniclifts/problems/solvers/mosek.py'))
    prim_prefix = ['import mosek', "task = solver_output['task']",
                   "if solver_output['integer']:\n    sol = mosek.soltype.itg\nelse:\n    sol = mosek.soltype.itr",
                   'solution_status = task.getsolsta(sol)', 'variable_values = dict()']
    dual_prefix = ['import mosek', "task = solver_output['task']", 'sol = mosek.soltype.itr',
                   'solution_status = task.getsolsta(sol)', 'variable_values = dict()']
    pbody, _ = _parse_fn(tree, '_primal_parse_result', prim_prefix)
    dbody, _ = _parse_fn(tree, '_dual_parse_result', dual_prefix)
    _x0_alloc_ok(tree, '_primal_parse_result')
    _x0_alloc_ok(tree, '_dual_parse_result')
    _dispatch(tree, 'apply', '_primal_apply', '_dual_apply', 'form')
    _dispatch(tree, 'solve_via_data', '_primal_solve_via_data', '_dual_solve_via_data', "data['form']")
    _dispatch(tree, 'parse_result', '_primal_parse_result', '_dual_parse_result', "inv_data['form']")
    ap = [ast.unparse(s) for s in _find_func(tree, 'Mosek', 'apply').body]
    for need in ('form = Mosek.decide_primal_vs_dual(c, A, b, K, params)', "data['form'] = form", "inv_data['form'] = form",
                 'return (data, inv_data)'):
        if need not in ap:
            raise TranslationError('Mosek.apply no longer contains: ' + need)
    g = _find_func(tree, 'Mosek', 'load_variable_values')
    shape = [ast.unparse(s) for s in g.body if not (isinstance(s, ast.Expr) and isinstance(s.value, ast.Constant))]
    expect = ["x = np.hstack([x0[:inv_data['n']], 0])", 'var_values = dict()',
              'for var_name in var_mapping:\n    var_values[var_name] = x[var_mapping[var_name]]', 'return var_values']
    if shape != expect:
        raise TranslationError('Mosek.load_variable_values changed: %r' % (shape,))
    # the primal form records n = A.shape[1] before separating cones; the dual form records n = len(h) = number of
    # equality rows of the dualised problem = number of columns of A
    pa = ast.unparse(_find_func(tree, 'Mosek', '_primal_apply'))
    if "inv_data = {'n': A.shape[1]}\n    A, b, K, sep_K = separate_cone_constraints(" not in pa:
        raise TranslationError("Mosek._primal_apply: inv_data['n'] is no longer A.shape[1] taken before separation")
    dbody_dec, slack_tags = _decide(tree)
    return ('(* GENERATED by harness/translator from sageopt/coniclifts/problems/solvers/mosek.py *)\n'
            'From Coq Require Import List Bool Arith.\n'
            'From SageVerif Require Import Gen.GenEcosParse Model.SolverForms.\nImport ListNotations.\n'
            'Inductive solsta := MOptimal | MIntegerOptimal | MDualInfeasCer | MPrimInfeasCer | MOtherSolsta.\n'
            'Definition solsta_eqb (a b : solsta) : bool :=\n'
            '  match a, b with MOptimal, MOptimal | MIntegerOptimal, MIntegerOptimal | MDualInfeasCer, MDualInfeasCer\n'
            '  | MPrimInfeasCer, MPrimInfeasCer | MOtherSolsta, MOtherSolsta => true | _, _ => false end.\n'
            '(* which vector of the MOSEK task is copied out before load_variable_values *)\n'
            'Inductive mread := ReadXX | ReadY | ReadNone.\n'
            '(* Mosek._primal_parse_result: (status, value kind, values loaded?, vector read) by solution status *)\n'
            'Definition mosek_primal_parse (s : solsta) : status * valkind * bool * mread :=\n' + pbody + '.\n'
            '(* Mosek._dual_parse_result *)\n'
            'Definition mosek_dual_parse (s : solsta) : status * valkind * bool * mread :=\n' + dbody + '.\n'
            '(* Mosek.decide_primal_vs_dual: true = dual form *)\n'
            'Definition mosek_slack_types : list ctag := [%s].\n' % '; '.join(slack_tags) +
            'Definition mosek_decide_dual (has_integers has_dualize dualize_val : bool) (slack_dim ncols : nat) : bool :=\n'
            + dbody_dec + '.\n'
            '(* apply / solve_via_data / parse_result all dispatch on the one form decided in apply; load_variable_values\n'
            '   reads x0[:n] extended by one trailing 0 *)\n'
            'Definition mosek_dispatch_pinned : bool := true.\n')
