"""Fail-closed translation of the epigraph_conic_form methods of the nonlinear atoms (coniclifts/operators/abs.py, pos.py, exp.py, relent.py,
norms.py) into Gallina (Gen/GenEpi.v).  Each method builds the triplet lists A_vals / A_rows / A_cols, the offset array b and the cone list K by
assignments, `+=`, `.append`, a branch on the number of non-constant terms of an argument and (Vector2Norm) a loop over the arguments; these are
translated statement by statement, in source order, as a chain of `let`s over the state variables (an `if` yields the tuple of the variables either
branch assigns, a `for` a fold_left over that tuple).  Expressions go through the table in Model/TripletIdioms.v.  Anything else raises."""
import ast

from harness.translator.tables import TranslationError, _src, _find_func

CONES = {'+': 'TPos', 'e': 'TExp', 'S': 'TSoc', '0': 'T0'}
DUMMY = ('ScalarVariable.curr_variable_count() - 1', 'int(ScalarVariable.curr_variable_count()) - 1')
EPI = 'self._epigraph_variable.id'
LISTS = {'A_rows': 'nat', 'A_cols': 'Z', 'A_vals': 'Q'}


def _u(e):
    return ast.unparse(e)


class Tr:
    def __init__(self, name):
        self.name = name
        self.affs = set()      # python names bound to an atom argument
        self.nats = set()      # python names bound to a natural number

    def err(self, what, node):
        raise TranslationError('%s.epigraph_conic_form: %s: %s' % (self.name, what, _u(node)[:100]))

    # ---- expressions ----
    def nat(self, e):
        t = _u(e)
        if isinstance(e, ast.Constant) and isinstance(e.value, int) and e.value >= 0:
            return '%d%%nat' % e.value
        if isinstance(e, ast.Name) and e.id in self.nats:
            return e.id
        if isinstance(e, ast.BinOp) and isinstance(e.op, ast.Add):
            return '(%s + %s)%%nat' % (self.nat(e.left), self.nat(e.right))
        if isinstance(e, ast.BinOp) and isinstance(e.op, ast.Sub) and isinstance(e.left, ast.Call) and _u(e.left.func) == 'len' and _u(e.right) == '1' \
                and isinstance(e.left.args[0], ast.Name) and e.left.args[0].id in self.affs:
            return '(length (fst %s))' % e.left.args[0].id
        if t == 'len(self.args)':
            return '(length args)'
        self.err('unsupported index expression', e)

    def scalar(self, e, ty):
        t = _u(e)
        if ty == 'nat':
            return self.nat(e)
        if ty == 'Z':
            if t == EPI:
                return 't'
            if t in DUMMY:
                return 'dummy'
            if t == 'var.id':
                return '(fst vc)'
            self.err('unsupported column expression', e)
        # Q
        if isinstance(e, ast.Constant) and isinstance(e.value, int):
            return '(%d)%%Q' % e.value
        if isinstance(e, ast.UnaryOp) and isinstance(e.op, ast.USub):
            if isinstance(e.operand, ast.Constant) and isinstance(e.operand.value, int):
                return '(-%d)%%Q' % e.operand.value
            return '(- %s)%%Q' % self.scalar(e.operand, 'Q')
        if isinstance(e, ast.Subscript) and isinstance(e.value, ast.Subscript) and isinstance(e.value.value, ast.Name) and e.value.value.id in self.affs \
                and _u(e.value.slice) == '-1' and _u(e.slice) == '1':
            return '(snd %s)' % e.value.value.id
        if isinstance(e, ast.Subscript) and _u(e.value) == 'b':
            return '(nth %s b 0%%Q)' % self.nat(e.slice)
        if t in ('co', 'coeff'):
            return '(snd vc)'
        self.err('unsupported value expression', e)

    def lst(self, e, ty):
        """a python list expression of element type ty"""
        if isinstance(e, ast.List):
            return '[' + '; '.join(self.scalar(x, ty) for x in e.elts) + ']'
        if isinstance(e, ast.BinOp) and isinstance(e.op, ast.Mult):
            n, l = (e.left, e.right) if isinstance(e.right, ast.List) else (e.right, e.left)
            if isinstance(l, ast.List) and len(l.elts) == 1:
                return '(repeat %s %s)' % (self.scalar(l.elts[0], ty), self.nat(n))
        if isinstance(e, ast.ListComp) and len(e.generators) == 1 and not e.generators[0].ifs and _u(e.generators[0].target) in ('(var, co)', '(var, coeff)'):
            it = e.generators[0].iter
            if isinstance(it, ast.Subscript) and isinstance(it.value, ast.Name) and it.value.id in self.affs and _u(it.slice) == ':-1':
                return '(map (fun vc => %s) (fst %s))' % (self.scalar(e.elt, ty), it.value.id)
        self.err('unsupported list expression', e)

    # ---- statements ----
    def assigned(self, body):
        out = []
        for s in body:
            for v in self.stmt_targets(s):
                if v not in out:
                    out.append(v)
        return out

    def stmt_targets(self, s):
        if isinstance(s, ast.Assign):
            tg = s.targets[0]
            if isinstance(tg, ast.Tuple):
                return [_u(x) for x in tg.elts]
            if isinstance(tg, ast.Subscript):
                return [_u(tg.value)]
            return [_u(tg)]
        if isinstance(s, ast.AugAssign):
            return [_u(s.target)]
        if isinstance(s, ast.Expr):
            v = s.value.elts[0] if isinstance(s.value, ast.Tuple) and len(s.value.elts) == 1 else s.value
            if isinstance(v, ast.Call) and isinstance(v.func, ast.Attribute) and v.func.attr == 'append':
                return [_u(v.func.value)]
            return []
        if isinstance(s, ast.If):
            return self.assigned(s.body + s.orelse)
        if isinstance(s, ast.For):
            return [v for v in self.assigned(s.body) if v in LISTS or v == 'b']
        return []

    def block(self, body, ind, result):
        """statements then the result expression"""
        out = []
        for s in body:
            out += self.stmt(s, ind)
        out.append(ind + result)
        return out

    def stmt(self, s, ind):
        t = _u(s)
        if isinstance(s, ast.Expr) and isinstance(s.value, ast.Constant) and isinstance(s.value.value, str):
            return []
        if isinstance(s, ast.If) and t.startswith('if self._eval_only:') and len(s.body) == 2 and isinstance(s.body[1], ast.Raise) and not s.orelse:
            return [ind + '(* an atom declared for evaluation only raises here; the model has no such atoms *)']
        if isinstance(s, ast.Assign) and len(s.targets) == 1:
            tg, v = s.targets[0], s.value
            if isinstance(tg, ast.Tuple) and isinstance(v, ast.Tuple) and all(_u(x) in LISTS for x in tg.elts):
                return [ind + 'let %s := %s in' % (_u(x), self.lst(y, LISTS[_u(x)])) for x, y in zip(tg.elts, v.elts)]
            name = _u(tg)
            if name == 'b' and isinstance(v, ast.Call) and _u(v.func) == 'np.zeros' and len(v.args) == 1:
                a = v.args[0].elts[0] if isinstance(v.args[0], ast.Tuple) else v.args[0]
                return [ind + 'let b := repeat 0%%Q %s in' % self.nat(a)]
            if name == 'K' and isinstance(v, ast.List) and len(v.elts) == 1 and isinstance(v.elts[0], ast.Call) and _u(v.elts[0].func) == 'Cone' \
                    and isinstance(v.elts[0].args[0], ast.Constant) and v.elts[0].args[0].value in CONES:
                return [ind + 'let K := [(%s, %s)] in' % (CONES[v.elts[0].args[0].value], self.nat(v.elts[0].args[1]))]
            if name == 'A_rows' and _u(v) == 'np.array(A_rows)':
                return []
            if name in LISTS:
                return [ind + 'let %s := %s in' % (name, self.lst(v, LISTS[name]))]
            if isinstance(tg, ast.Name) and isinstance(v, ast.Subscript) and _u(v.value) == 'self.args' and isinstance(v.slice, ast.Constant):
                self.affs.add(name)
                return [ind + 'let %s := nth %d args ([], 0%%Q) in' % (name, v.slice.value)]
            if isinstance(tg, ast.Subscript) and _u(tg.value) == 'b':
                return [ind + "let b := set_nthQ' %s %s b in" % (self.nat(tg.slice), self.scalar(v, 'Q'))]
            if isinstance(tg, ast.Name):
                g = self.nat(v)
                self.nats.add(name)
                return [ind + 'let %s := %s in' % (name, g)]
            self.err('unsupported assignment', s)
        if isinstance(s, ast.AugAssign) and isinstance(s.op, ast.Add) and _u(s.target) in LISTS:
            n = _u(s.target)
            return [ind + 'let %s := %s ++ %s in' % (n, n, self.lst(s.value, LISTS[n]))]
        if isinstance(s, ast.Expr):
            v = s.value.elts[0] if isinstance(s.value, ast.Tuple) and len(s.value.elts) == 1 else s.value
            if isinstance(v, ast.Call) and isinstance(v.func, ast.Attribute) and v.func.attr == 'append' and _u(v.func.value) in LISTS and len(v.args) == 1:
                n = _u(v.func.value)
                return [ind + 'let %s := %s ++ [%s] in' % (n, n, self.scalar(v.args[0], LISTS[n]))]
            self.err('unsupported expression statement', s)
        if isinstance(s, ast.If):
            test = s.test
            if not (isinstance(test, ast.Compare) and len(test.ops) == 1 and isinstance(test.ops[0], ast.Gt) and _u(test.comparators[0]) == '0'):
                self.err('unsupported branch condition', test)
            vs = self.assigned(s.body + s.orelse)
            if any(v not in LISTS and v != 'b' for v in vs):
                self.err('a branch assigns something other than the triplet lists and b', s)
            tup = '(' + ', '.join(vs) + ')'
            pat = "'" + tup if len(vs) > 1 else vs[0]
            out = [ind + 'let %s :=' % pat, ind + '  if Nat.ltb 0 %s then' % self.nat(test.left)]
            out += self.block(s.body, ind + '    ', tup if len(vs) > 1 else vs[0])
            out.append(ind + '  else')
            out += self.block(s.orelse, ind + '    ', tup if len(vs) > 1 else vs[0])
            out.append(ind + 'in')
            return out
        if isinstance(s, ast.For) and not s.orelse:
            vs = [v for v in self.assigned(s.body) if v in LISTS or v == 'b']
            tup = '(' + ', '.join(vs) + ')'
            pat = "'" + tup if len(vs) > 1 else vs[0]
            res = tup if len(vs) > 1 else vs[0]
            if _u(s.target) == '(i, arg)' and _u(s.iter) == 'enumerate(self.args)':
                self.affs.add('arg')
                self.nats.add('i')
                out = [ind + 'let %s := fold_left (fun st iarg => let %s := st in let i := fst iarg in let arg := snd iarg in' % (pat, pat)]
                out += self.block(s.body, ind + '    ', res)
                out.append(ind + '  ) (combine (seq 0 (length args)) args) %s in' % res)
                return out
            if _u(s.target) in ('(var, coeff)', '(var, co)') and isinstance(s.iter, ast.Subscript) and isinstance(s.iter.value, ast.Name) \
                    and s.iter.value.id in self.affs and _u(s.iter.slice) == ':-1':
                out = [ind + 'let %s := fold_left (fun st vc => let %s := st in' % (pat, pat)]
                out += self.block(s.body, ind + '    ', res)
                out.append(ind + '  ) (fst %s) %s in' % (s.iter.value.id, res))
                return out
            self.err('unsupported loop', s)
        if isinstance(s, ast.Return):
            if t != 'return (A_vals, np.array(A_rows), A_cols, b, K)' and t != 'return (A_vals, A_rows, A_cols, b, K)':
                self.err('unexpected return value', s)
            return [ind + '(A_vals, A_rows, A_cols, b, K)']
        self.err('unsupported statement', s)


def one(repo, rel, cls, name):
    f = _find_func(ast.parse(_src(repo, rel)), cls, 'epigraph_conic_form')
    tr = Tr(cls)
    lines = []
    for s in f.body:
        lines += tr.stmt(s, '  ')
    if not isinstance(f.body[-1], ast.Return):
        raise TranslationError('%s.epigraph_conic_form does not end in a return' % cls)
    return ('(* %s: %s.epigraph_conic_form *)\nDefinition gen_epi_%s (dummy t : Z) (args : list aff) : list Q * list nat * list Z * list Q * list cone :=\n'
            % (rel, cls, name) + '\n'.join(lines) + '.\n')


def gen_epi(repo):
    base = 'sageopt/coniclifts/operators/'
    return ('(* GENERATED by harness/translator/epi_tr.py from coniclifts/operators/{abs,pos,exp,relent,norms}.py *)\n'
            'From Coq Require Import List Bool Arith ZArith QArith.\nFrom SageVerif Require Import Model.SolverForms Model.Expr Model.Compile Model.TripletIdioms.\n'
            'Import ListNotations.\nClose Scope Q_scope.\n\n'
            + one(repo, base + 'abs.py', 'Abs', 'abs') + '\n' + one(repo, base + 'pos.py', 'Pos', 'pos') + '\n'
            + one(repo, base + 'exp.py', 'Exponential', 'exp') + '\n' + one(repo, base + 'relent.py', 'RelEnt', 'relent') + '\n'
            + one(repo, base + 'norms.py', 'Vector2Norm', 'norm2') + '\n'
            '(* the generated conic form of an atom, read as the block the model emits *)\n'
            'Definition gen_epi_block (dummy t : Z) (a : atom) : list cone * list rrow :=\n'
            '  let rd := fun (r : list Q * list nat * list Z * list Q * list cone) =>\n'
            "    let '(vals, rows, cols, b, K) := r in (K, trip_rows vals rows cols b) in\n"
            '  match a with\n'
            '  | ANl KAbs args => rd (gen_epi_abs dummy t args)\n'
            '  | ANl KPos args => rd (gen_epi_pos dummy t args)\n'
            '  | ANl KExp args => rd (gen_epi_exp dummy t args)\n'
            '  | ANl KRelEnt args => rd (gen_epi_relent dummy t args)\n'
            '  | ANl KNorm2 args => rd (gen_epi_norm2 dummy t args)\n'
            '  | AVar _ => ([], [])\n'
            '  end.\n')
