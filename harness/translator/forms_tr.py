"""Fail-closed translation of ECOS.apply (problems/solvers/ecos.py) and build_cone_type_selectors (cones.py) into Gallina (Gen/GenForms.v).

ECOS.apply is straight-line code over boolean-mask indexing; its EXPRESSIONS are translated structurally:
    A[type_selectors['X'], :]   ->  mask (gen_selector K TX) A            (matrix)
    b[type_selectors['X']]      ->  mask (gen_selector K TX) b            (vector)
    -E                          ->  negm topp E  /  map topp E            (by the kind of E)
    sp.vstack([...], format='csc'), np.hstack((...))  ->  ++
    int(np.sum(type_selectors['X']))        ->  count_true (gen_selector K TX)
    int(np.sum(type_selectors['X']) / 3)    ->  Nat.div (count_true ...) 3
    [co.len for co in K if co.type == 'X']  ->  map snd (filter ...)
the accepted cone types are read from the guard at the top, and the `data` dictionary gives the record fields.
build_cone_type_selectors is a loop with a running row index; it is translated as a fold over K with the state (running_idx, selector of
type t), one selector per cone type t (the defaultdict)."""
import ast

from harness.translator.tables import TranslationError, _src, _find_func, _find_toplevel_func

TAG = {'0': 'T0', '+': 'TPos', 'S': 'TSoc', 'e': 'TExp', 'de': 'TDExp', 'fr': 'TFree', 'P': 'TPsd', 'pow': 'TPow'}


def _u(e):
    return ast.unparse(e)


class ExprTr:
    def __init__(self):
        self.env = {}      # name -> (kind, gallina)   kind in {'mat', 'vec', 'nat', 'natlist'}

    def fail(self, what, e=None):
        raise TranslationError('ECOS.apply: %s%s' % (what, (': ' + _u(e)[:90]) if e is not None else ''))

    def selector(self, e):
        """type_selectors['X'] -> gallina selector"""
        if isinstance(e, ast.Subscript) and _u(e.value) == 'type_selectors' and isinstance(e.slice, ast.Constant) and e.slice.value in TAG:
            return '(gen_selector K %s)' % TAG[e.slice.value]
        self.fail('expected type_selectors[<cone type>]', e)

    def expr(self, e):
        if isinstance(e, ast.Name):
            if e.id in self.env:
                return self.env[e.id]
            if e.id == 'c':
                return ('vec', 'c')
            self.fail('unknown name', e)
        if isinstance(e, ast.UnaryOp) and isinstance(e.op, ast.USub):
            k, g = self.expr(e.operand)
            if k == 'mat':
                return ('mat', '(negm topp %s)' % g)
            if k == 'vec':
                return ('vec', '(map topp %s)' % g)
            self.fail('negation of something that is neither a matrix nor a vector', e)
        if isinstance(e, ast.Subscript) and isinstance(e.value, ast.Name) and e.value.id in ('A', 'b'):
            sl = e.slice
            if e.value.id == 'A':
                if isinstance(sl, ast.Tuple) and len(sl.elts) == 2 and _u(sl.elts[1]) == ':':
                    return ('mat', '(mask %s A)' % self.selector(sl.elts[0]))
                self.fail('rows of A must be selected as A[type_selectors[..], :]', e)
            return ('vec', '(mask %s b)' % self.selector(sl))
        if isinstance(e, ast.Call):
            fn = _u(e.func)
            if fn == 'sp.vstack' and len(e.args) == 1 and isinstance(e.args[0], (ast.List, ast.Tuple)):
                parts = [self.expr(x) for x in e.args[0].elts]
                if not all(k == 'mat' for k, _ in parts):
                    self.fail('vstack of non-matrices', e)
                return ('mat', '(' + ' ++ '.join(g for _, g in parts) + ')')
            if fn == 'np.hstack' and len(e.args) == 1 and isinstance(e.args[0], (ast.List, ast.Tuple)):
                parts = [self.expr(x) for x in e.args[0].elts]
                if not all(k == 'vec' for k, _ in parts):
                    self.fail('hstack of non-vectors', e)
                return ('vec', '(' + ' ++ '.join(g for _, g in parts) + ')')
            if fn == 'int' and len(e.args) == 1:
                a = e.args[0]
                if isinstance(a, ast.Call) and _u(a.func) == 'np.sum' and len(a.args) == 1:
                    return ('nat', '(count_true %s)' % self.selector(a.args[0]))
                if isinstance(a, ast.BinOp) and isinstance(a.op, ast.Div) and isinstance(a.left, ast.Call) and _u(a.left.func) == 'np.sum' \
                        and isinstance(a.right, ast.Constant) and isinstance(a.right.value, int) and a.right.value > 0:
                    return ('nat', '(Nat.div (count_true %s) %d)' % (self.selector(a.left.args[0]), a.right.value))
        if isinstance(e, ast.ListComp) and len(e.generators) == 1:
            g = e.generators[0]
            if _u(e.elt) == 'co.len' and _u(g.target) == 'co' and _u(g.iter) == 'K' and len(g.ifs) == 1:
                t = g.ifs[0]
                if isinstance(t, ast.Compare) and _u(t.left) == 'co.type' and isinstance(t.ops[0], ast.Eq) and isinstance(t.comparators[0], ast.Constant) \
                        and t.comparators[0].value in TAG:
                    return ('natlist', '(map snd (filter (fun co => ctag_eqb (fst co) %s) K))' % TAG[t.comparators[0].value])
        self.fail('unsupported expression', e)


def tr_ecos_apply(tree):
    f = _find_func(tree, 'ECOS', 'apply')
    if [a.arg for a in f.args.args] != ['c', 'A', 'b', 'K', 'params']:
        raise TranslationError('ECOS.apply: signature changed')
    body = [s for s in f.body if not (isinstance(s, ast.Expr) and isinstance(s.value, ast.Constant))]
    # guard: for co in K: if co.type not in {...}: raise RuntimeError
    g = body[0]
    ok = (isinstance(g, ast.For) and _u(g.target) == 'co' and _u(g.iter) == 'K' and len(g.body) == 1 and isinstance(g.body[0], ast.If))
    if ok:
        t = g.body[0].test
        ok = (isinstance(t, ast.Compare) and _u(t.left) == 'co.type' and isinstance(t.ops[0], ast.NotIn) and isinstance(t.comparators[0], (ast.Set, ast.List, ast.Tuple))
              and any(isinstance(x, ast.Raise) for x in g.body[0].body))
    if not ok:
        raise TranslationError('ECOS.apply: the guard on cone types changed')
    allowed = sorted(ast.literal_eval(x) for x in g.body[0].test.comparators[0].elts)
    if any(a not in TAG for a in allowed):
        raise TranslationError('ECOS.apply: unknown cone type in the guard: %r' % allowed)
    if _u(body[1]) != 'type_selectors = build_cone_type_selectors(K)':
        raise TranslationError('ECOS.apply: the selectors are no longer built by build_cone_type_selectors(K)')
    tr = ExprTr()
    data = None
    for s in body[2:]:
        if isinstance(s, ast.Assign) and len(s.targets) == 1 and isinstance(s.targets[0], ast.Name):
            name = s.targets[0].id
            if name == 'cones' and isinstance(s.value, ast.Dict):
                d = {}
                for k, v in zip(s.value.keys, s.value.values):
                    d[ast.literal_eval(k)] = tr.expr(v)
                if sorted(d) != ['e', 'l', 'q'] or d['l'][0] != 'nat' or d['e'][0] != 'nat' or d['q'][0] != 'natlist':
                    raise TranslationError('ECOS.apply: the cone dimension dictionary changed')
                tr.env['cones'] = ('dims', d)
            elif name == 'data' and isinstance(s.value, ast.Dict):
                data = {ast.literal_eval(k): _u(v) for k, v in zip(s.value.keys, s.value.values)}
            elif name == 'inv_data':
                if _u(s.value) != 'dict()':
                    raise TranslationError('ECOS.apply: inv_data is no longer empty')
            else:
                tr.env[name] = tr.expr(s.value)
        elif isinstance(s, ast.Return):
            if _u(s.value) != '(data, inv_data)':
                raise TranslationError('ECOS.apply: return value changed')
        else:
            raise TranslationError('ECOS.apply: unsupported statement ' + _u(s)[:80])
    if data is None or sorted(data) != ['A', 'G', 'b', 'c', 'cones', 'h']:
        raise TranslationError('ECOS.apply: the data dictionary changed: %r' % (data,))

    def val(key, kind):
        k, g_ = tr.expr(ast.parse(data[key], mode='eval').body)
        if k != kind:
            raise TranslationError('ECOS.apply: data[%r] is a %s, expected a %s' % (key, k, kind))
        return g_
    dims = tr.env['cones'][1]
    if data['cones'] != 'cones':
        raise TranslationError('ECOS.apply: data[cones] changed')
    return ('  Definition gen_ecos_allowed (t : ctag) : bool := existsb (ctag_eqb t) [%s].\n' % '; '.join(TAG[a] for a in allowed) +
            '  Definition gen_ecos_apply (c : list T) (A : matT) (b : list T) (K : list cone) : result (@ecos_data T) :=\n'
            '    if forallb (fun co => gen_ecos_allowed (fst co)) K then\n'
            '      Ok {| eG := %s;\n            eh := %s;\n            el := %s; ee := %s;\n            eq_ := %s;\n'
            '            eA := %s;\n            eb := %s;\n            ec := %s |}\n    else Err 1.\n'
            % (val('G', 'mat'), val('h', 'vec'), dims['l'][1], dims['e'][1], dims['q'][1], val('A', 'mat'), val('b', 'vec'), val('c', 'vec')))


def tr_selectors(tree):
    f = _find_toplevel_func(tree, 'build_cone_type_selectors')
    body = [_u(s) for s in f.body if not (isinstance(s, ast.Expr) and isinstance(s.value, ast.Constant))]
    expect = ['m = sum((co.len for co in K))', 'type_selectors = defaultdict(lambda: (lambda: np.zeros(m, dtype=bool))())', 'running_idx = 0',
              'for i, co in enumerate(K):\n    type_selectors[co.type][running_idx:running_idx + co.len] = True\n    running_idx += co.len',
              'return type_selectors']
    if body != expect:
        raise TranslationError('build_cone_type_selectors: body changed: %r' % body)
    return ('(* build_cone_type_selectors: one boolean selector per cone type t (the defaultdict), filled by a loop with a running row index *)\n'
            'Fixpoint set_range (lo hi : nat) (sel : list bool) : list bool :=\n'
            '  match sel with\n  | [] => []\n  | x :: sel\' => match lo, hi with\n'
            '                 | _, O => x :: sel\'\n                 | O, S hi\' => true :: set_range O hi\' sel\'\n'
            '                 | S lo\', S hi\' => x :: set_range lo\' hi\' sel\'\n                 end\n  end.\n'
            'Definition gen_selector (K : list cone) (t : ctag) : list bool :=\n'
            '  let m := fold_right (fun co acc => snd co + acc) 0 K in\n'
            '  let type_selector_t := repeat false m in\n'
            '  let running_idx := 0 in\n'
            '  snd (fold_left (fun st co => let \'(running_idx, type_selector_t) := st in\n'
            '                   let type_selector_t := if ctag_eqb t (fst co) then set_range running_idx (running_idx + snd co) type_selector_t\n'
            '                                          else type_selector_t in\n'
            '                   let running_idx := running_idx + snd co in\n'
            '                   (running_idx, type_selector_t)) K (running_idx, type_selector_t)).\n')


def gen_forms(repo):
    t1 = ast.parse(_src(repo, 'sageopt/coniclifts/cones.py'))
    t2 = ast.parse(_src(repo, 'sageopt/coniclifts/problems/solvers/ecos.py'))
    return ('(* GENERATED by harness/translator/forms_tr.py from sageopt/coniclifts/cones.py and problems/solvers/ecos.py *)\n'
            'From Coq Require Import List Bool Arith.\nFrom SageVerif Require Import Model.SolverForms.\nImport ListNotations.\n\n'
            + tr_selectors(t1) +
            '\nSection GenForms.\n  Context {T : Type} (topp : T -> T).\n' + tr_ecos_apply(t2) + 'End GenForms.\n')
