"""Fail-closed translation of the index allocation code of coniclifts into Gallina (Gen/GenAlloc.v):
    ScalarVariable.__init__ (the id it takes and the increment of _SCALAR_VARIABLE_COUNTER), coniclifts.clear_variable_indices,
    Variable.__new__ (default name and its counter, the generation stamp, dispatch on var_properties, the two guards at the end),
    Variable.__unstructured_populate__ and Variable.__symmetric_populate__ (loops, ranges, order of allocation, which entries are written).
The three class attributes are threaded as a state (counter, generation, unnamed); statements are translated in source order, so moving the
increment before the read, changing a range bound or writing another entry changes the generated function.  What a cell of the Variable
*contains* (np.ndarray.__setitem__(obj, idx, ScalarExpression({v: 1}, ...))) is not part of the allocation state and is checked only for
its shape; array representation: Model/AllocIdioms.v."""
import ast

from harness.translator.tables import TranslationError, _src, _find_func, _find_toplevel_func


def _u(e):
    return ast.unparse(e)


def _body(f):
    return [s for s in f.body if not (isinstance(s, ast.Expr) and isinstance(s.value, ast.Constant)) and not isinstance(s, ast.Pass)]


def expect(c, what):
    if not c:
        raise TranslationError('allocation code: ' + what)


def tr_scalar_variable(tree):
    f = _find_func(tree, 'ScalarVariable', '__init__')
    expect([a.arg for a in f.args.args] == ['self', 'parent', 'index'], 'ScalarVariable.__init__: signature changed')
    txt, have = '', set()
    for s in _body(f):
        t = _u(s)
        if t == 'self._id = ScalarVariable._SCALAR_VARIABLE_COUNTER':
            txt += '  let self_id := counter in\n'
            have.add('id')
        elif t == 'self._generation = parent.generation':
            txt += '  let self_generation := parent_generation in\n'
            have.add('gen')
        elif t in ('self._value = np.nan', 'self.index = index', 'self.parent = parent'):
            continue
        elif isinstance(s, ast.AugAssign) and _u(s.target) == 'ScalarVariable._SCALAR_VARIABLE_COUNTER' and isinstance(s.op, ast.Add) \
                and isinstance(s.value, ast.Constant) and isinstance(s.value.value, int):
            txt += '  let counter := (counter + %d)%%Z in\n' % s.value.value
            have.add('inc')
        else:
            raise TranslationError('ScalarVariable.__init__: unsupported statement ' + t[:80])
    expect(have == {'id', 'gen', 'inc'}, 'ScalarVariable.__init__: id / generation / counter statements changed')
    return ('(* ScalarVariable.__init__: returns the new counter and the (id, generation) of the new scalar variable *)\n'
            'Definition gen_scalar_variable (counter parent_generation : Z) : Z * (Z * Z) :=\n' + txt + '  (counter, (self_id, self_generation)).\n')


def tr_clear(tree):
    f = _find_toplevel_func(tree, 'clear_variable_indices')
    txt, have = '', set()
    for s in _body(f):
        if isinstance(s, ast.Assign) and _u(s.targets[0]) == 'ScalarVariable._SCALAR_VARIABLE_COUNTER' and isinstance(s.value, ast.Constant) \
                and isinstance(s.value.value, int):
            txt += '  let counter := %d%%Z in\n' % s.value.value
            have.add('c')
        elif isinstance(s, ast.AugAssign) and _u(s.target) == 'Variable._VARIABLE_GENERATION' and isinstance(s.op, ast.Add) \
                and isinstance(s.value, ast.Constant) and isinstance(s.value.value, int):
            txt += '  let generation := (generation + %d)%%Z in\n' % s.value.value
            have.add('g')
        else:
            raise TranslationError('clear_variable_indices: unsupported statement ' + _u(s)[:80])
    expect(have == {'c', 'g'}, 'clear_variable_indices: statements changed')
    return ('(* coniclifts.clear_variable_indices *)\nDefinition gen_clear (g : gstate) : gstate :=\n'
            '  let counter := counter g in\n  let generation := generation g in\n  let unnamed := unnamed g in\n' + txt +
            '  {| counter := counter; generation := generation; unnamed := unnamed |}.\n')


class Pop:
    """statements of the two populate methods; state: counter (Z), ids (list Z), temp_id_array (arr2)"""

    def __init__(self, name):
        self.name = name
        self.vars = set()       # names bound to a fresh scalar variable's id

    def fail(self, what, node=None):
        raise TranslationError('%s: %s%s' % (self.name, what, (': ' + _u(node)[:90]) if node is not None else ''))

    def nat(self, e):
        if isinstance(e, ast.Name) and e.id in ('i', 'j'):
            return e.id
        if isinstance(e, ast.Constant) and isinstance(e.value, int) and not isinstance(e.value, bool) and e.value >= 0:
            return str(e.value)
        if isinstance(e, ast.BinOp) and isinstance(e.op, (ast.Add, ast.Sub)):
            return '(%s %s %s)' % (self.nat(e.left), '+' if isinstance(e.op, ast.Add) else '-', self.nat(e.right))
        if isinstance(e, ast.Subscript) and _u(e.value) == 'obj.shape' and isinstance(e.slice, ast.Constant) and e.slice.value in (0, 1):
            return '(nth %d sh 0)' % e.slice.value
        self.fail('unsupported index expression', e)

    def cell_ok(self, e, v):
        """the value stored in a cell: ScalarExpression({v: 1}, 0, ...) or a name bound to it"""
        t = _u(e)
        return t in ('se', 'ScalarExpression({%s: 1}, 0, verify=False)' % v)

    def stmts(self, body, ind, loopvars):
        pad = ' ' * ind
        out = ''
        for s in body:
            t = _u(s)
            if isinstance(s, ast.Assign) and isinstance(s.targets[0], ast.Name) and isinstance(s.value, ast.Call) and _u(s.value.func) == 'ScalarVariable':
                kw = {k.arg: k.value for k in s.value.keywords}
                if s.value.args or set(kw) != {'parent', 'index'} or _u(kw['parent']) != 'obj':
                    self.fail('unsupported ScalarVariable call', s)
                v = s.targets[0].id
                out += pad + "let '(counter, %s_idgen) := gen_scalar_variable counter generation in\n" % v
                out += pad + 'let %s_id := fst %s_idgen in\n' % (v, v)
                self.vars.add(v)
            elif t in ('d = defaultdict(int)', 'd[v] = 1', 'se = ScalarExpression(d, 0, verify=False, copy=False)'):
                continue
            elif isinstance(s, ast.Expr) and isinstance(s.value, ast.Call) and _u(s.value.func) == 'np.ndarray.__setitem__' and len(s.value.args) == 3 \
                    and _u(s.value.args[0]) == 'obj' and any(self.cell_ok(s.value.args[2], v) for v in self.vars):
                continue           # the content of a cell is not allocation state
            elif isinstance(s, ast.Expr) and isinstance(s.value, ast.Call) and _u(s.value.func) == 'obj._scalar_variable_ids.append' and len(s.value.args) == 1:
                a = s.value.args[0]
                if isinstance(a, ast.Attribute) and a.attr == 'id' and isinstance(a.value, ast.Name) and a.value.id in self.vars:
                    out += pad + 'let ids := ids ++ [%s_id] in\n' % a.value.id
                elif isinstance(a, ast.Subscript) and _u(a.value) == 'temp_id_array' and isinstance(a.slice, ast.Name) and a.slice.id in loopvars:
                    out += pad + 'let ids := ids ++ [get_tup temp_id_array %s] in\n' % a.slice.id
                else:
                    self.fail('unsupported append', s)
            elif isinstance(s, ast.Assign) and _u(s.targets[0]) == 'temp_id_array' and t == 'temp_id_array = np.zeros(shape=obj.shape, dtype=int)':
                out += pad + 'let temp_id_array := zeros2 in\n'
            elif isinstance(s, ast.Assign) and isinstance(s.targets[0], ast.Subscript) and _u(s.targets[0].value) == 'temp_id_array' \
                    and isinstance(s.targets[0].slice, ast.Tuple) and len(s.targets[0].slice.elts) == 2 \
                    and isinstance(s.value, ast.Attribute) and s.value.attr == 'id' and isinstance(s.value.value, ast.Name) and s.value.value.id in self.vars:
                a, b = s.targets[0].slice.elts
                out += pad + 'let temp_id_array := upd2 temp_id_array %s %s %s_id in\n' % (self.nat(a), self.nat(b), s.value.value.id)
            elif isinstance(s, ast.For) and not s.orelse and isinstance(s.target, ast.Name):
                it = s.iter
                var = s.target.id
                if isinstance(it, ast.Call) and _u(it.func) == 'range' and len(it.args) in (1, 2) and var in ('i', 'j'):
                    lo = '0' if len(it.args) == 1 else self.nat(it.args[0])
                    hi = self.nat(it.args[-1])
                    rng = '(seq %s (%s - %s))' % (lo, hi, lo)
                elif _u(it) == 'array_index_iterator(obj.shape)':
                    rng = '(index_tuples sh)'
                else:
                    self.fail('unsupported loop', s)
                inner = self.stmts(_body(s), ind + 6, loopvars | {var})
                out += (pad + "let '(counter, ids, temp_id_array) :=\n" + pad + '  fold_left (fun st_ %s =>\n' % var +
                        pad + "      let '(counter, ids, temp_id_array) := st_ in\n" + inner +
                        pad + '      (counter, ids, temp_id_array)) %s (counter, ids, temp_id_array) in\n' % rng)
            else:
                self.fail('unsupported statement', s)
        return out


def tr_unstructured(tree):
    f = _find_func(tree, 'Variable', '__unstructured_populate__')
    b = _body(f)
    expect(len(b) == 1 and isinstance(b[0], ast.If) and _u(b[0].test) == 'obj.shape == ()' and b[0].orelse, '__unstructured_populate__: frame changed')
    p = Pop('Variable.__unstructured_populate__')
    scalar = p.stmts(_body(b[0]), 6, set())
    general = p.stmts(b[0].orelse, 6, set())
    return ('(* Variable.__unstructured_populate__: returns the new counter and obj._scalar_variable_ids *)\n'
            'Definition gen_unstructured_populate (counter generation : Z) (sh : list nat) : Z * list Z :=\n'
            '  let ids := [] in\n  let temp_id_array := zeros2 in\n'
            "  let '(counter, ids, temp_id_array) :=\n    match sh with\n    | [] =>\n" + scalar + '      (counter, ids, temp_id_array)\n    | _ =>\n' + general +
            '      (counter, ids, temp_id_array)\n    end in\n  (counter, ids).\n')


def tr_symmetric(tree):
    f = _find_func(tree, 'Variable', '__symmetric_populate__')
    b = _body(f)
    g = b[0]
    expect(isinstance(g, ast.If) and not g.orelse and any(isinstance(x, ast.Raise) for x in g.body), '__symmetric_populate__: guard changed')
    # guard: obj.ndim != 2 or obj.shape[0] != obj.shape[1]
    t = g.test
    ok = isinstance(t, ast.BoolOp) and isinstance(t.op, ast.Or) and [_u(v) for v in t.values] == ['obj.ndim != 2', 'obj.shape[0] != obj.shape[1]']
    expect(ok, '__symmetric_populate__: guard changed: ' + _u(t))
    p = Pop('Variable.__symmetric_populate__')
    txt = p.stmts(b[1:], 4, set())
    return ('(* Variable.__symmetric_populate__: None when it raises; otherwise the new counter and obj._scalar_variable_ids *)\n'
            'Definition gen_symmetric_populate (counter generation : Z) (sh : list nat) : option (Z * list Z) :=\n'
            '  if (negb (Nat.eqb (length sh) 2) || negb (Nat.eqb (nth 0 sh 0) (nth 1 sh 0)))%bool then None else\n'
            '  let ids := [] in\n  let temp_id_array := zeros2 in\n' + txt + '  Some (counter, ids).\n')


def tr_new(tree):
    f = _find_func(tree, 'Variable', '__new__')
    expect([a.arg for a in f.args.args] == ['cls', 'shape', 'name', 'var_properties'], 'Variable.__new__: signature changed')
    b = [_u(s) for s in _body(f)]
    want = ['if var_properties is None:\n    var_properties = []',
            "if name is None:\n    name = 'unnamed_var_{%s}' % str(Variable._UNNAMED_VARIABLE_CALL_COUNT)\n    Variable._UNNAMED_VARIABLE_CALL_COUNT += 1",
            'obj = np.empty(shape=shape, dtype=object).view(Variable)', 'obj._is_proper = True', 'obj._name = name', 'obj._var_properties = var_properties',
            'obj._scalar_variable_ids = []', 'obj._generation = Variable._VARIABLE_GENERATION',
            "if len(var_properties) == 0:\n    Variable.__unstructured_populate__(obj)\nelif 'symmetric' in var_properties:\n    Variable.__symmetric_populate__(obj)\n"
            "else:\n    Variable.__unstructured_populate__(obj)\n    raise UserWarning('The variable with name ' + name + ' was declared with an unknown property.')",
            "if obj.size == 0:\n    raise RuntimeError('Cannot declare Variables with zero components.')"]
    expect(b[:len(want)] == want, 'Variable.__new__: body changed: %r' % [x for x, y in zip(b, want) if x != y][:1])
    rest = b[len(want):]
    expect(len(rest) == 2 and rest[0].startswith('if obj._scalar_variable_ids[-1] > np.iinfo(int).max:') and rest[1] == 'return obj', 'Variable.__new__: tail changed')
    return ('(* Variable.__new__ with var_properties = [] (sym = false) or [\'symmetric\'] (sym = true): the state after the call (also when it raises)\n'
            '   and the Variable, None when the constructor raises; the overflow guard on np.iinfo(int).max is outside the model (unbounded Z) *)\n'
            'Definition gen_new_var (g : gstate) (sh : list nat) (sym : bool) (name : option nat) : gstate * option var :=\n'
            '  let counter := counter g in\n  let generation := generation g in\n  let unnamed := unnamed g in\n'
            "  let '(name, unnamed) := match name with None => (Unnamed unnamed, S unnamed) | Some k => (Named k, unnamed) end in\n"
            '  let obj_generation := generation in\n'
            '  let populated := if negb sym then Some (gen_unstructured_populate counter obj_generation sh)\n'
            '                   else gen_symmetric_populate counter obj_generation sh in\n'
            '  match populated with\n'
            '  | None => ({| counter := counter; generation := generation; unnamed := unnamed |}, None)\n'
            "  | Some (counter, ids) =>\n"
            '      let g_ := {| counter := counter; generation := generation; unnamed := unnamed |} in\n'
            '      if Nat.eqb (size_of sh) 0 then (g_, None)\n'
            '      else (g_, Some {| v_name := name; v_shape := sh; v_sym := sym; v_gen := obj_generation; v_ids := ids |})\n'
            '  end.\n')


def gen_alloc(repo):
    t1 = ast.parse(_src(repo, 'sageopt/coniclifts/base.py'))
    t2 = ast.parse(_src(repo, 'sageopt/coniclifts/__init__.py'))
    return ('(* GENERATED by harness/translator/alloc_tr.py from sageopt/coniclifts/base.py and sageopt/coniclifts/__init__.py *)\n'
            'From Coq Require Import List Bool Arith ZArith.\nFrom SageVerif Require Import Model.Alloc Model.AllocIdioms.\nImport ListNotations.\n\n'
            + tr_scalar_variable(t1) + '\n' + tr_clear(t2) + '\n' + tr_unstructured(t1) + '\n' + tr_symmetric(t1) + '\n' + tr_new(t1))
