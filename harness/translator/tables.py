"""Fail-closed translation of decision tables / constants in /repo into Gallina (DESIGN §2.3 (T)).
Every function here raises TranslationError on any construct it does not recognise."""
import ast
import os


class TranslationError(Exception):
    pass


def _src(repo, rel):
    return open(os.path.join(repo, rel)).read()


def _find_func(tree, cls, name):
    for node in ast.walk(tree):
        if isinstance(node, ast.ClassDef) and node.name == cls:
            for f in node.body:
                if isinstance(f, ast.FunctionDef) and f.name == name:
                    return f
    raise TranslationError('function %s.%s not found' % (cls, name))


def _find_toplevel_func(tree, name):
    for node in tree.body:
        if isinstance(node, ast.FunctionDef) and node.name == name:
            return node
    raise TranslationError('function %s not found' % name)


def _tok(e):
    return ast.unparse(e).replace('"', "'")


# ------------------------------------------------------------------ generic symbolic execution of if-chains
class SymExec:
    """Executes a statement list whose control flow consists only of if/elif/else over tests of the
    form  <expr> == <const>,  <expr> in {<const>, ...}; assignments bind names (or attributes) to the
    source text of the right-hand side (after substituting already-bound names that are plain aliases).
    Result: decision tree  ('if', (kind, subject_token, consts), then, else) | ('leaf', env)."""

    def __init__(self, const_ok):
        self.const_ok = const_ok  # function: ast expr -> python constant or raises

    def cond(self, test, env):
        if isinstance(test, ast.Compare) and len(test.ops) == 1:
            subj = self.subject(test.left, env)
            op, rhs = test.ops[0], test.comparators[0]
            if isinstance(op, ast.Eq):
                return ('eq', subj, [self.const_ok(rhs)])
            if isinstance(op, ast.In) and isinstance(rhs, (ast.Set, ast.List, ast.Tuple)):
                return ('in', subj, [self.const_ok(e) for e in rhs.elts])
        raise TranslationError('unsupported test: ' + ast.unparse(test))

    def subject(self, e, env):
        t = _tok(e)
        return env.get(t, t)

    def run(self, stmts, env):
        if not stmts:
            return ('leaf', dict(env))
        s, rest = stmts[0], stmts[1:]
        if isinstance(s, ast.Expr) and isinstance(s.value, ast.Constant) and isinstance(s.value.value, str):
            return self.run(rest, env)
        if isinstance(s, ast.Pass):
            return self.run(rest, env)
        if isinstance(s, ast.Assign) and len(s.targets) == 1 and isinstance(s.targets[0], (ast.Name, ast.Attribute)):
            env2 = dict(env)
            env2[_tok(s.targets[0])] = self.value(s.value, env)
            return self.run(rest, env2)
        if isinstance(s, ast.If):
            c = self.cond(s.test, env)
            return ('if', c, self.run(list(s.body) + rest, env), self.run(list(s.orelse) + rest, env))
        if isinstance(s, ast.Return):
            env2 = dict(env)
            if isinstance(s.value, ast.Tuple):
                env2['__return__'] = tuple(self.value(e, env) for e in s.value.elts)
            else:
                env2['__return__'] = (self.value(s.value, env),)
            return ('leaf', env2)
        raise TranslationError('unsupported statement: ' + ast.unparse(s)[:80])

    def value(self, e, env):
        t = _tok(e)
        if t in env:
            return env[t]
        if isinstance(e, ast.UnaryOp) and isinstance(e.op, ast.USub):
            inner = self.value(e.operand, env)
            return '-' + inner
        return t


def _emit_tree(tree, leaf_fn, cond_fn, indent='  '):
    if tree[0] == 'leaf':
        return indent + leaf_fn(tree[1])
    _, c, t, f = tree
    return ('%sif %s then\n%s\n%selse\n%s' % (indent, cond_fn(c), _emit_tree(t, leaf_fn, cond_fn, indent + '  '),
                                             indent, _emit_tree(f, leaf_fn, cond_fn, indent + '  ')))


# ------------------------------------------------------------------ ECOS.parse_result
STATUS_TOK = {'CL_CONSTANTS.solved': 'Solved', 'CL_CONSTANTS.inaccurate': 'Inaccurate', 'CL_CONSTANTS.failed': 'Failed'}
VALUE_TOK = {"solver_output['info']['pcost']": 'VPcost', 'np.inf': 'VInf', '-np.inf': 'VNegInf', 'np.nan': 'VNan'}
LOAD_TOK = {"ECOS.load_variable_values(solver_output['x'], var_mapping)": 'true', 'dict()': 'false'}


def _int_const(e):
    if isinstance(e, ast.Constant) and isinstance(e.value, int) and not isinstance(e.value, bool):
        return e.value
    if isinstance(e, ast.UnaryOp) and isinstance(e.op, ast.USub) and isinstance(e.operand, ast.Constant) \
            and isinstance(e.operand.value, int):
        return -e.operand.value
    raise TranslationError('expected integer literal: ' + ast.unparse(e))


def gen_ecos_parse(repo):
    tree = ast.parse(_src(repo, 'sageopt/coniclifts/problems/solvers/ecos.py'))
    f = _find_func(tree, 'ECOS', 'parse_result')
    se = SymExec(_int_const)
    dt = se.run(list(f.body), {})
    FLAG = "solver_output['info']['exitFlag']"

    def cond(c):
        kind, subj, consts = c
        if subj != FLAG:
            raise TranslationError('test on %s, expected the exit flag' % subj)
        return '(existsb (Z.eqb flag) [%s])' % '; '.join('(%d)%%Z' % k for k in consts)

    def leaf(env):
        r = env.get('__return__')
        if not r or len(r) != 3:
            raise TranslationError('parse_result must return a 3-tuple')
        st, vv, val = r
        if st not in STATUS_TOK or vv not in LOAD_TOK or val not in VALUE_TOK:
            raise TranslationError('unrecognised result tokens %r' % (r,))
        return '(%s, %s, %s)' % (STATUS_TOK[st], VALUE_TOK[val], LOAD_TOK[vv])

    body = _emit_tree(dt, leaf, cond)
    # load_variable_values: pinned shape  x = hstack([x, 0]); var_values[name] = x[var_mapping[name]]
    g = _find_func(tree, 'ECOS', 'load_variable_values')
    stm = [s for s in g.body if not (isinstance(s, ast.Expr) and isinstance(s.value, ast.Constant))]
    shape = [ast.unparse(s) for s in stm]
    expect = ['x = np.hstack([x, 0])', 'var_values = dict()',
              'for var_name in var_mapping:\n    var_values[var_name] = x[var_mapping[var_name]]', 'return var_values']
    if shape != expect:
        raise TranslationError('ECOS.load_variable_values changed: %r' % (shape,))
    return ('(* GENERATED by harness/translator from sageopt/coniclifts/problems/solvers/ecos.py: ECOS.parse_result *)\n'
            'From Coq Require Import ZArith List Bool.\nImport ListNotations.\n'
            'Inductive status := Solved | Inaccurate | Failed.\n'
            'Inductive valkind := VPcost | VInf | VNegInf | VNan.\n'
            '(* (problem_status, problem_value kind, variable values loaded?) as a function of the ECOS exit flag *)\n'
            'Definition ecos_parse (flag : Z) : status * valkind * bool :=\n' + body + '.\n'
            '(* ECOS.load_variable_values: x is extended by one trailing 0, then indexed by the variable map *)\n'
            'Definition ecos_load_appends_zero : bool := true.\n')


# ------------------------------------------------------------------ Problem.__init__ / solve post-processing
def gen_problem_solve(repo):
    tree = ast.parse(_src(repo, 'sageopt/coniclifts/problems/problem.py'))
    init = _find_func(tree, 'Problem', '__init__')
    solve = _find_func(tree, 'Problem', 'solve')
    # (a) sense handling of the objective vector in __init__
    sense_if = None
    for s in init.body:
        if isinstance(s, ast.If) and 'self.c' in ast.unparse(s):
            sense_if = s
    if sense_if is None:
        raise TranslationError('objective sense handling not found in Problem.__init__')

    def cl_const(e):
        t = _tok(e)
        if t in ('CL_CONSTANTS.minimize', 'CL_CONSTANTS.maximize', 'CL_CONSTANTS.solved', 'CL_CONSTANTS.inaccurate',
                 'CL_CONSTANTS.failed'):
            return t
        raise TranslationError('unexpected constant ' + t)
    se = SymExec(cl_const)
    dt = se.run([sense_if], {})

    def cond_sense(c):
        kind, subj, consts = c
        if subj not in ('sense', 'self.objective_sense') or kind != 'eq':
            raise TranslationError('unexpected sense test on ' + subj)
        if consts == ['CL_CONSTANTS.minimize']:
            return 'is_min'
        if consts == ['CL_CONSTANTS.maximize']:
            return '(negb is_min)'
        raise TranslationError('unexpected sense constant')

    def leaf_c(env):
        v = env.get('self.c')
        if v == 'c':
            return 'false'
        if v == '-c':
            return 'true'
        raise TranslationError('unexpected objective vector %r' % v)
    body_c = _emit_tree(dt, leaf_c, cond_sense)
    # (b) value post-processing in solve: the last If that assigns self.value
    val_if = None
    for s in solve.body:
        if isinstance(s, ast.If) and 'self.value' in ast.unparse(s):
            val_if = s
    if val_if is None:
        raise TranslationError('value post-processing not found in Problem.solve')
    dt2 = se.run([val_if], {'self.status': 'self.status'})

    def cond_val(c):
        kind, subj, consts = c
        if subj == 'self.status' and kind == 'in':
            m = {'CL_CONSTANTS.solved': 'Solved', 'CL_CONSTANTS.inaccurate': 'Inaccurate', 'CL_CONSTANTS.failed': 'Failed'}
            return '(existsb (status_eqb st) [%s])' % '; '.join(m[k] for k in consts)
        return cond_sense(c)

    def leaf_v(env):
        v = env.get('self.value')
        m = {'parsed_result[2]': 'PKeep', '-parsed_result[2]': 'PNegate', 'np.nan': 'PNan'}
        if v not in m:
            raise TranslationError('unexpected value expression %r' % v)
        return m[v]
    body_v = _emit_tree(dt2, leaf_v, cond_val)
    # (c) value loading: pinned shape
    load_if = None
    for s in solve.body:
        if isinstance(s, ast.If) and 'variable_values' in ast.unparse(s.test):
            load_if = s
    expect = ("if len(self.variable_values) > 0:\n    for v in self.all_variables:\n        if v.name in self.variable_values:\n"
              "            var_val = self.variable_values[v.name]\n            v.value = var_val\nelse:\n"
              "    for v in self.all_variables:\n        nans = np.nan * np.empty(v.shape)\n        v.value = nans")
    if load_if is None or ast.unparse(load_if) != expect:
        raise TranslationError('variable loading block of Problem.solve changed')
    # (d) status and variable_values come straight from the solver interface
    txt = [ast.unparse(s) for s in solve.body]
    for need in ('self.status = parsed_result[0]', 'self.variable_values = parsed_result[1]',
                 'parsed_result = solver_object.parse_result(raw_result, inv_data, self.variable_map)',
                 'data, inv_data = solver_object.apply(self.c, self.A, self.b, self.K, options)',
                 'return (self.status, self.value)'):
        if need not in txt:
            raise TranslationError('Problem.solve no longer contains: ' + need)
    return ('(* GENERATED by harness/translator from sageopt/coniclifts/problems/problem.py *)\n'
            'From Coq Require Import ZArith List Bool.\nFrom SageVerif Require Import Gen.GenEcosParse.\nImport ListNotations.\n'
            'Definition status_eqb (a b : status) : bool :=\n'
            '  match a, b with Solved, Solved | Inaccurate, Inaccurate | Failed, Failed => true | _, _ => false end.\n'
            'Inductive post := PKeep | PNegate | PNan.\n'
            '(* Problem.__init__: is the objective vector negated before it is handed to the solver? *)\n'
            'Definition objective_negated (is_min : bool) : bool :=\n' + body_c + '.\n'
            '(* Problem.solve: what happens to the value reported by the solver interface *)\n'
            'Definition solve_value_post (st : status) (is_min : bool) : post :=\n' + body_v + '.\n')


# ------------------------------------------------------------------ SAGE settings and constants
def gen_settings(repo):
    tree = ast.parse(_src(repo, 'sageopt/coniclifts/constraints/set_membership/sage_cones.py'))
    settings = None
    allowed = None
    for node in tree.body:
        if isinstance(node, ast.Assign) and len(node.targets) == 1 and isinstance(node.targets[0], ast.Name):
            if node.targets[0].id == 'SETTINGS':
                settings = ast.literal_eval(node.value)
            if node.targets[0].id == '_ALLOWED_CONES_':
                allowed = ast.literal_eval(node.value)
    if settings is None or allowed is None:
        raise TranslationError('SETTINGS / _ALLOWED_CONES_ not found')
    keys = ['heuristic_reduction', 'presolve_trivial_age_cones', 'sum_age_force_equality', 'compact_dual', 'kernel_basis']
    for k in keys:
        if not isinstance(settings.get(k), bool):
            raise TranslationError('SETTINGS[%s] missing or not bool' % k)
    if sorted(settings) != sorted(keys + ['reduction_solver']):
        raise TranslationError('SETTINGS keys changed: %r' % sorted(settings))
    # the six setter functions in coniclifts/__init__.py must assign exactly their own key
    t2 = ast.parse(_src(repo, 'sageopt/coniclifts/__init__.py'))
    setters = {}
    for node in t2.body:
        if isinstance(node, ast.FunctionDef):
            for s in ast.walk(node):
                if isinstance(s, ast.Assign) and len(s.targets) == 1 and isinstance(s.targets[0], ast.Subscript):
                    tgt = s.targets[0]
                    if _tok(tgt.value).endswith('SETTINGS') and isinstance(tgt.slice, ast.Constant):
                        setters.setdefault(node.name, []).append((tgt.slice.value, _tok(s.value)))
    lines = ['(* GENERATED by harness/translator from sage_cones.py (SETTINGS, _ALLOWED_CONES_) and coniclifts/__init__.py *)',
             'From Coq Require Import List Bool String.', 'Import ListNotations.', 'Open Scope string_scope.',
             'Record settings := { heuristic_reduction : bool; presolve_trivial_age_cones : bool;',
             '  sum_age_force_equality : bool; compact_dual : bool; kernel_basis : bool }.',
             'Definition default_settings : settings := {| ' + '; '.join(
                 '%s := %s' % (k, 'true' if settings[k] else 'false') for k in keys) + ' |}.',
             'Definition default_reduction_solver : string := "%s".' % settings['reduction_solver'],
             'Definition sage_allowed_cones : list string := [%s].' % '; '.join('"%s"' % c for c in sorted(allowed)),
             '(* setter function name -> SETTINGS keys it assigns *)',
             'Definition setters : list (string * list string) := [%s].' % '; '.join(
                 '("%s", [%s])' % (fn, '; '.join('"%s"' % k for k, _ in kv)) for fn, kv in sorted(setters.items()))]
    return '\n'.join(lines) + '\n'


def gen_consts(repo):
    src = _src(repo, 'sageopt/symbolic/signomials.py')
    tree = ast.parse(src)
    vals = {}
    for node in tree.body:
        if isinstance(node, ast.Assign) and len(node.targets) == 1 and isinstance(node.targets[0], ast.Name):
            if node.targets[0].id in ('__EXPONENT_VECTOR_DECIMAL_POINTS__',):
                vals[node.targets[0].id] = ast.literal_eval(node.value)
    if '__EXPONENT_VECTOR_DECIMAL_POINTS__' not in vals or not isinstance(vals['__EXPONENT_VECTOR_DECIMAL_POINTS__'], int):
        raise TranslationError('__EXPONENT_VECTOR_DECIMAL_POINTS__ not found')
    return ('(* GENERATED by harness/translator from sageopt/symbolic/signomials.py *)\n'
            'From Coq Require Import ZArith.\n'
            'Definition exponent_decimal_points : Z := %d%%Z.\n' % vals['__EXPONENT_VECTOR_DECIMAL_POINTS__'])


def generators():
    """Gen file name -> function(repo) -> text; each is run on its own so that a construct the translator does not accept in one source
    file fails only the theorems that depend on that Gen file"""
    from harness.translator import mosek_tab, funcs, gf2_tr, forms_tr, mforms_tr, symcorr_tr, alloc_tr, sigeq_tr, varmap_tr, prodcone_tr, rows_tr, epi_tr
    return {'GenEpi.v': epi_tr.gen_epi, 'GenRows.v': rows_tr.gen_rows, 'GenProdCone.v': prodcone_tr.gen_prodcone, 'GenVarMap.v': varmap_tr.gen_varmap, 'GenSigEq.v': sigeq_tr.gen_sigeq, 'GenAlloc.v': alloc_tr.gen_alloc, 'GenSymCorr.v': symcorr_tr.gen_symcorr, 'GenForms.v': forms_tr.gen_forms, 'GenMosekForms.v': mforms_tr.gen_mforms, 'GenGf2.v': gf2_tr.gen_gf2, 'GenSolrec.v': funcs.gen_solrec, 'GenConGen.v': funcs.gen_congen, 'GenMosek.v': mosek_tab.gen_mosek,
            'GenEcosParse.v': gen_ecos_parse, 'GenProblemSolve.v': gen_problem_solve, 'GenSettings.v': gen_settings, 'GenConsts.v': gen_consts}


def generate(repo):
    return {name: fn(repo) for name, fn in generators().items()}
