def generate(repo):
    return {}
