#!/bin/sh
# usage: mkprops.sh <PID> <SpecModule> <ProofsReexportModule> name1 name2 ...
# writes Props/<PID>/<name>.v: `Theorem name : name_stmt. Proof. exact <DefiningModule>.name. Qed. Print Assumptions name.`
cd /verif/coq/theories
pid=$1; spec=$2; reexp=$3; shift 3
mkdir -p Props/$pid
for t in "$@"; do
  f=$(grep -lE "^(Lemma|Theorem|Corollary) $t\b" Proofs/*.v | head -1)
  [ -z "$f" ] && { echo "no lemma $t"; continue; }
  mod=$(basename $f .v)
  cat > Props/$pid/$t.v <<EOT
From SageVerif Require Import Proofs.$spec Proofs.$reexp.
Theorem $t : ${t}_stmt.
Proof. exact $mod.$t. Qed.
Print Assumptions $t.
EOT
done
