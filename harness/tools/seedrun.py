#!/usr/bin/env python3
"""Evaluate a seeded change against the checks WITHOUT touching /repo:
   seedrun.py <mutant_dir> <verif_copy> <tier> <PID> [<PID> ...]
creates a scratch worktree of /repo under /tmp, applies <mutant_dir>/patch.diff, confirms the change (test suite unchanged,
demonstration exits 1 on the patched tree and 0 on /repo), runs `VERIF_REPO=<worktree> <verif_copy>/check <PID> <tier>` for each
PID, prints one JSON line and removes the worktree.  (Development tool; not used by any registered check.)"""
import json, os, subprocess, sys, tempfile, shutil, re

def sh(cmd, cwd=None, env=None, timeout=3000):
    e = dict(os.environ); e.update(env or {})
    p = subprocess.run(cmd, shell=True, cwd=cwd, env=e, capture_output=True, text=True, timeout=timeout)
    return p.returncode, (p.stdout + p.stderr)

def main():
    mdir, vcopy, tier = sys.argv[1:4]; pids = sys.argv[4:]
    mdir = os.path.abspath(mdir)
    wt = tempfile.mkdtemp(prefix='seedwt_', dir='/tmp'); os.rmdir(wt)
    res = {'mutant': mdir, 'tier': tier}
    try:
        rc, out = sh('git -C /repo worktree add -q --detach %s HEAD' % wt)
        rc, out = sh('git apply %s/patch.diff' % mdir, cwd=wt)
        if rc != 0:
            res['error'] = 'patch does not apply: ' + out[-300:]; print(json.dumps(res)); return
        env = {'PYTHONPATH': wt, 'PYTHONHASHSEED': '0', 'PYTHONDONTWRITEBYTECODE': '1'}
        if os.environ.get('SEED_SKIP_CONFIRM') != '1':
            rc, out = sh('/venv/bin/python -m pytest -q -p no:cacheprovider --timeout=900 2>&1 | tail -3', cwd=wt, env=env)
            m = re.search(r'(\d+) failed, (\d+) passed', out)
            res['tests'] = m.group(0) if m else out[-200:]
            demo = os.path.join(mdir, 'demo.py')
            if os.path.exists(demo):
                rc1, o1 = sh('/venv/bin/python %s' % demo, cwd='/tmp', env=env, timeout=900)
                env0 = dict(env); env0['PYTHONPATH'] = '/repo'
                rc0, o0 = sh('/venv/bin/python %s' % demo, cwd='/tmp', env=env0, timeout=900)
                res['demo_patched'] = rc1; res['demo_unmodified'] = rc0
                res['demo_tail'] = o1[-400:]
        res['checks'] = {}
        for pid in pids:
            rc, out = sh('%s/check %s %s' % (vcopy, pid, tier), env={'VERIF_REPO': wt}, timeout=7200)
            lines = [l for l in out.splitlines() if re.match(r'^(OK|VIOLATION|KNOWN-FINDING|BROKEN|ERROR)', l)]
            res['checks'][pid] = {'exit': rc, 'lines': lines[:6] or out.splitlines()[-3:]}
    finally:
        sh('git -C /repo worktree remove --force %s' % wt)
        shutil.rmtree(wt, ignore_errors=True)
        sh('git -C /repo worktree prune')
    print(json.dumps(res))

main()
