#!/usr/bin/env python3
"""seedbatch.py <out.jsonl> <ncopies> <tier> <mutant_dir>[:PID,PID...] ...
runs seedrun.py for every mutant dir (target property = the directory's parent name unless PIDs are given) on a pool of private
copies of /verif (rsync'd to /tmp/vcopy_<k>, removed at the end).  Development tool; not used by any registered check."""
import json, os, subprocess, sys, threading, queue

def main():
    out, ncopies, tier = sys.argv[1], int(sys.argv[2]), sys.argv[3]
    items = sys.argv[4:]
    q = queue.Queue()
    for it in items:
        q.put(it)
    lock = threading.Lock()
    def worker(k):
        vc = os.environ.get('VCOPY_PREFIX', '/tmp/vcopy_') + '%d' % k
        subprocess.run('rm -rf %s && rsync -a --exclude .git --exclude replay --exclude logs /verif/ %s/' % (vc, vc), shell=True, check=True)
        while True:
            try:
                it = q.get_nowait()
            except queue.Empty:
                break
            if ':' in it:
                d, pids = it.split(':'); pids = pids.split(',')
            else:
                d = it; pids = [os.path.basename(os.path.dirname(os.path.abspath(d)))]
            p = subprocess.run([sys.executable, '/verif/harness/tools/seedrun.py', d, vc, tier] + pids, capture_output=True, text=True)
            line = [l for l in p.stdout.splitlines() if l.startswith('{')]
            rec = line[-1] if line else json.dumps({'mutant': d, 'error': (p.stdout + p.stderr)[-500:]})
            with lock:
                open(out, 'a').write(rec + '\n')
        subprocess.run('rm -rf %s' % vc, shell=True)
    ts = [threading.Thread(target=worker, args=(k,)) for k in range(ncopies)]
    [t.start() for t in ts]; [t.join() for t in ts]

main()
