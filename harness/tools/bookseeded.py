#!/usr/bin/env python3
"""bookseeded.py <round_dir> <round_tag> <first-pass results.jsonl,...> <final results.jsonl,...>
copies the confirmed seeded changes of one mutation round (<round_dir>/Cxx/mK/{patch.diff,demo.py,meta.json}) into /verif/seeded/Cxx-<round_tag>mK/ with the
confirmation and detection data taken from seedbatch result files; writes <round_dir>/rows.json for the DESIGN table.  Development tool."""
import json, os, shutil, glob, sys
ROOT, TAG = sys.argv[1].rstrip('/'), sys.argv[2]
FIRST = sys.argv[3].split(',')
FINAL = sys.argv[4].split(',')
conf = {}
first = {}
for f in FIRST:
    for l in open(ROOT+'/'+f):
        r=json.loads(l); m=r['mutant'].replace(ROOT+'/','')
        conf[m]=r
        pid=m.split('/')[0]
        first[m]= r.get('checks',{}).get(pid,{}).get('exit')==1
final = {}
for f in FINAL:
    if not os.path.exists(ROOT+'/'+f): continue
    for l in open(ROOT+'/'+f):
        r=json.loads(l); m=r['mutant'].replace(ROOT+'/','')
        pid=m.split('/')[0]
        ck=r.get('checks',{}).get(pid)
        if ck: final[m]=ck
rows=[]
for d in sorted(glob.glob(ROOT+'/C*/m*')):
    m=d.replace(ROOT+'/',''); pid,mk=m.split('/')
    meta=json.load(open(d+'/meta.json'))
    c=conf.get(m)
    if not c or c.get('demo_patched')!=1 or c.get('demo_unmodified')!=0 or '1 failed, 125 passed' not in str(c.get('tests')):
        print('NOT CONFIRMED', m, c and (c.get('tests'), c.get('demo_patched'), c.get('demo_unmodified'))); continue
    sid='%s-%s%s'%(pid,TAG,mk)
    out='/verif/seeded/'+sid
    os.makedirs(out,exist_ok=True)
    shutil.copy(d+'/patch.diff',out+'/patch.diff'); shutil.copy(d+'/demo.py',out+'/demo.py')
    fin=final.get(m,{})
    meta.update({'id':sid,'target_property':pid,
      'confirmed':{'tests_patched':c['tests']+', 19 skipped (baseline)','demo_exit_unmodified':0,'demo_exit_patched':1,
                   'how':'harness/tools/seedrun.py: patch applied in a scratch worktree of /repo HEAD, full test suite, demo.py on both trees'},
      'checks_quick':{'target_caught_first_pass':bool(first.get(m)),'target_caught':fin.get('exit')==1,
                      'with_failing_input': fin.get('exit')==1 and not any('no-failing-input-found' in x for x in fin.get('lines',[]) if x.startswith('VIOLATION')) ,
                      'lines':[x[:160] for x in fin.get('lines',[])][:3]},
      'apply':'git -C /repo apply /verif/seeded/%s/patch.diff ; ./check %s quick ; git -C /repo checkout -- .'%(sid,pid)})
    json.dump(meta,open(out+'/meta.json','w'),indent=1)
    rows.append((sid, meta['summary'][:150].replace('|','/').replace('\n',' '), first.get(m), fin.get('exit')==1, meta['checks_quick']['with_failing_input']))
json.dump(rows,open(ROOT+'/rows.json','w'))
print(len(rows), sum(1 for r in rows if r[2]), sum(1 for r in rows if r[3]))
