"""Shared machinery for the checks: Coq build, grep gate, cases evaluation inside Coq,
evidence writer, violation protocol, known findings.  Runs under /venv/bin/python with
PYTHONPATH=/repo:/verif (see /verif/check)."""
import fcntl
import hashlib
import json
import os
import random
import re
import subprocess
import sys
import time
from fractions import Fraction

VERIF = os.path.dirname(os.path.dirname(os.path.abspath(__file__)))
REPO = os.environ.get('VERIF_REPO', '/repo')
COQ = os.path.join(VERIF, 'coq')
THEORIES = os.path.join(COQ, 'theories')
CASES = os.path.join(COQ, 'cases')
NPROC = int(os.environ.get('VERIF_JOBS', '16'))

STD_AXIOMS_NOTE = ('axioms reported by Print Assumptions are standard-library ones only '
                   '(real-number axioms, classic, functional_extensionality_dep); none declared here')


# ----------------------------------------------------------------------------- Coq literals
class Nat(int):
    pass


def cq(v):
    """Python value -> Coq term text.  int -> Z, Nat -> nat, Fraction -> Q, bool, list, tuple, None/('Some',x)."""
    if isinstance(v, bool):
        return 'true' if v else 'false'
    if isinstance(v, Nat):
        return '%d%%nat' % int(v)
    if isinstance(v, int):
        return '(%d)%%Z' % v
    if isinstance(v, Fraction):
        return '(%d # %d)%%Q' % (v.numerator, v.denominator)
    if isinstance(v, Raw):
        return v.s
    if v is None:
        return 'None'
    if isinstance(v, Some):
        return '(Some %s)' % cq(v.v)
    if isinstance(v, tuple):
        return '(' + ', '.join(cq(x) for x in v) + ')'
    if isinstance(v, list):
        return '[' + '; '.join(cq(x) for x in v) + ']'
    if isinstance(v, str):
        return '"%s"%%string' % v.replace('"', '""')
    raise TypeError('cq: %r' % (v,))


class Raw:
    def __init__(self, s):
        self.s = s


class Some:
    def __init__(self, v):
        self.v = v


def frac(x):
    """exact rational of a python/numpy float or int (never rounds)."""
    if isinstance(x, Fraction):
        return x
    if isinstance(x, (int,)):
        return Fraction(x)
    import numpy as np
    if isinstance(x, np.integer):
        return Fraction(int(x))
    return Fraction(float(x))


# ----------------------------------------------------------------------------- build
class BuildResult:
    def __init__(self):
        self.ok = True
        self.failed_files = []     # .v files whose compilation failed
        self.log = ''
        self.cmd = ''
        self.wall = 0.0
        self.translator_error = None
        self.translator_errors = {}     # Gen file (relative to coq/) -> error text


def _lock():
    os.makedirs(COQ, exist_ok=True)
    f = open(os.path.join(COQ, '.buildlock'), 'w')
    fcntl.flock(f, fcntl.LOCK_EX)
    return f


def all_v_files():
    out = []
    for root, _, files in os.walk(THEORIES):
        for fn in files:
            if fn.endswith('.v'):
                out.append(os.path.join(root, fn))
    return sorted(out)


GATE_RE = re.compile(r'\b(Admitted|admit|Axiom|Axioms|Parameter|Parameters|Conjecture|Admit Obligations|'
                     r'Unset Guard Checking|Unset Positivity Checking|Unset Universe Checking|bypass_check|'
                     r'type-in-type|impredicative-set|native_compute)\b')


def strip_comments(text):
    out = []
    depth = 0
    i = 0
    n = len(text)
    while i < n:
        if text.startswith('(*', i):
            depth += 1
            i += 2
        elif text.startswith('*)', i) and depth > 0:
            depth -= 1
            i += 2
        else:
            if depth == 0:
                out.append(text[i])
            elif text[i] == '\n':
                out.append('\n')
            i += 1
    return ''.join(out)


def grep_gate():
    """No Admitted/admit/Axiom/Parameter/... anywhere; no Variable/Hypothesis outside a section."""
    bad = []
    for path in all_v_files():
        text = strip_comments(open(path).read())
        depth = 0
        for ln, line in enumerate(text.split('\n'), 1):
            m = GATE_RE.search(line)
            if m:
                bad.append('%s:%d: %s' % (os.path.relpath(path, COQ), ln, m.group(0)))
            s = line.strip()
            if re.match(r'^Section\s+\w+', s):
                depth += 1
            elif re.match(r'^End\s+\w+\s*\.', s) and depth > 0:
                depth -= 1
            elif re.match(r'^(Variable|Variables|Hypothesis|Hypotheses|Context)\b', s) and depth == 0:
                bad.append('%s:%d: %s outside a section' % (os.path.relpath(path, COQ), ln, s.split()[0]))
    return bad


def build(log_name='build'):
    """Regenerate Gen/*.v from /repo (translator), then full .vo build with make -k.  Serialised by flock."""
    res = BuildResult()
    t0 = time.time()
    lock = _lock()
    try:
        # 1. translator (fail closed)
        try:
            from harness.translator import pytab2coq
            errs = pytab2coq.regenerate(REPO, os.path.join(THEORIES, 'Gen'))
            res.translator_errors = {'theories/Gen/' + k: v for k, v in errs.items()}
            if errs:
                res.translator_error = '; '.join('%s: %s' % kv for kv in sorted(errs.items()))
        except Exception as e:  # translation error = the tie is broken
            res.translator_error = '%s: %s' % (type(e).__name__, e)
            res.translator_errors = {'theories/Gen/*': res.translator_error}
        # 2. source list + makefile
        lines = ['-R theories SageVerif',
                 '-arg -w -arg -notation-overridden,-deprecated-hint-without-locality,'
                 '-deprecated-instance-without-locality,-ambiguous-paths,-deprecated-syntactic-definition,'
                 '-future-coercion-class-field']
        lines += [os.path.relpath(p, COQ) for p in all_v_files()]
        newtxt = '\n'.join(lines) + '\n'
        cp = os.path.join(COQ, '_CoqProject')
        old = open(cp).read() if os.path.exists(cp) else None
        if old != newtxt or not os.path.exists(os.path.join(COQ, 'Makefile')):
            open(cp, 'w').write(newtxt)
            subprocess.run(['coq_makefile', '-f', '_CoqProject', '-o', 'Makefile'], cwd=COQ,
                           stdout=subprocess.DEVNULL, stderr=subprocess.DEVNULL, check=True)
        res.cmd = 'cd /verif/coq && coq_makefile -f _CoqProject -o Makefile && timeout 3000 make -k -j%d' % NPROC
        p = subprocess.run(['timeout', '3000', 'make', '-k', '-j%d' % NPROC], cwd=COQ,
                           stdout=subprocess.PIPE, stderr=subprocess.STDOUT, text=True)
        res.log = p.stdout
        os.makedirs(os.path.join(VERIF, 'logs'), exist_ok=True)
        open(os.path.join(VERIF, 'logs', log_name + '.log'), 'w').write(p.stdout)
        for m in re.finditer(r'File "\./?(theories/[^"]+\.v)", line (\d+)', p.stdout):
            f = m.group(1)
            if f not in res.failed_files:
                res.failed_files.append(f)
        # a .v without fresh .vo also counts as failed
        for v in all_v_files():
            vo = v[:-2] + '.vo'
            if not os.path.exists(vo) or os.path.getmtime(vo) < os.path.getmtime(v):
                rel = os.path.relpath(v, COQ)
                if rel not in res.failed_files:
                    res.failed_files.append(rel)
        res.ok = (p.returncode == 0 and not res.failed_files and res.translator_error is None)
    finally:
        fcntl.flock(lock, fcntl.LOCK_UN)
        lock.close()
    res.wall = time.time() - t0
    return res


def deps_of(vfile_rel):
    """transitive theory dependencies of a .v (by `Require` lines naming SageVerif modules)."""
    seen = set()
    stack = [vfile_rel]
    while stack:
        f = stack.pop()
        if f in seen:
            continue
        seen.add(f)
        p = os.path.join(COQ, f)
        if not os.path.exists(p):
            continue
        txt = strip_comments(open(p).read()) + '\n'
        # a vernacular sentence ends with a period followed by white space; module names contain periods not followed by it
        for m in re.finditer(r'(?:From\s+([\w.]+)\s+)?Require\s+(?:Import\s+|Export\s+)?(.*?)\.(?=\s)', txt, re.S):
            prefix = m.group(1) or ''
            for name in m.group(2).split():
                if prefix and prefix != 'SageVerif':
                    continue
                name = name.replace('SageVerif.', '')
                cand = 'theories/' + name.replace('.', '/') + '.v'
                if os.path.exists(os.path.join(COQ, cand)):
                    stack.append(cand)
    return seen


def obligations(pid):
    d = os.path.join(THEORIES, 'Props', pid)
    if not os.path.isdir(d):
        return []
    return sorted(os.path.join('theories', 'Props', pid, f) for f in os.listdir(d) if f.endswith('.v'))


def parse_assumptions(log):
    """collect 'Print Assumptions' outputs from the build log -> sorted set of axiom names"""
    axioms = set()
    for m in re.finditer(r'^Axioms:\n((?:.+\n)+?)(?=^\S|\Z)', log, re.M):
        pass
    for line in log.split('\n'):
        m = re.match(r'^([A-Za-z_][\w.]*)\s*$', line)
        m2 = re.match(r'^([A-Za-z_][\w.]*)\s*:', line)
        mm = m2 or None
        if mm and ('.' in mm.group(1)) and not mm.group(1).startswith('File'):
            axioms.add(mm.group(1))
    return sorted(axioms)


def assumptions_for(pid):
    """Re-run Print Assumptions outputs: they are stored by the Props files' compilation in the build log
    only when rebuilt; to be robust we recompute by compiling a tiny file that prints them."""
    obs = obligations(pid)
    if not obs:
        return [], ''
    names = []
    for o in obs:
        txt = strip_comments(open(os.path.join(COQ, o)).read())
        mod = o[len('theories/'):-2].replace('/', '.')
        for m in re.finditer(r'^(?:Theorem|Lemma|Example|Corollary)\s+(\w+)', txt, re.M):
            names.append((mod, m.group(1)))
    os.makedirs(CASES, exist_ok=True)
    fn = os.path.join(CASES, 'assum_%s.v' % pid)
    with open(fn, 'w') as f:
        mods = sorted(set(m for m, _ in names))
        for m in mods:
            f.write('Require SageVerif.%s.\n' % m)
        for m, n in names:
            f.write('Print Assumptions SageVerif.%s.%s.\n' % (m, n))
    p = subprocess.run(['timeout', '600', 'coqc', '-R', 'theories', 'SageVerif', fn], cwd=COQ,
                       stdout=subprocess.PIPE, stderr=subprocess.STDOUT, text=True)
    out = p.stdout
    axioms = set()
    for line in out.split('\n'):
        m = re.match(r'^([A-Za-z_][\w.]*)\s*(?::|$)', line)       # long names put their type on the next line
        if m and m.group(1) != 'Axioms' and not line.startswith('Closed'):
            axioms.add(m.group(1))
    closed = out.count('Closed under the global context')
    return sorted(axioms), 'theorems=%d closed=%d rc=%d' % (len(names), closed, p.returncode)


def coqchk_for(pid):
    """thorough tier: re-check the compiled obligations of one property and everything they depend on with the independent
    checker; returns (ok, axioms it reports, command, wall seconds, tail of output)"""
    obs = obligations(pid)
    mods = ['SageVerif.' + o[len('theories/'):-2].replace('/', '.') for o in obs]
    cmd = ['timeout', '3000', 'coqchk', '-silent', '-o', '-R', 'theories', 'SageVerif'] + mods
    t0 = time.time()
    p = subprocess.run(cmd, cwd=COQ, stdout=subprocess.PIPE, stderr=subprocess.STDOUT, text=True)
    out = p.stdout
    axioms = []
    m = re.search(r'\* Axioms:(.*?)\n\* ', out, re.S)
    if m:
        axioms = [a.strip() for a in m.group(1).split('\n') if a.strip() and a.strip() != '<none>']
    bad = [l for l in out.split('\n') if re.match(r'\* (Constants/Inductives relying on|Inductives whose positivity)', l) and '<none>' not in l]
    ok = p.returncode == 0 and not bad
    return ok, axioms, 'cd /verif/coq && coqchk -silent -o -R theories SageVerif <%d modules of Props/%s>' % (len(mods), pid), time.time() - t0, out[-600:]


# ----------------------------------------------------------------------------- cases in Coq
def coq_eval_file(name, text, timeout=900):
    """Compile a generated file under coq/cases; return stdout (the Eval outputs)."""
    os.makedirs(CASES, exist_ok=True)
    fn = os.path.join(CASES, name + '.v')
    open(fn, 'w').write(text)
    p = subprocess.run('ulimit -s unlimited 2>/dev/null; timeout %d coqc -R theories SageVerif -w none %s' % (timeout, fn),
                       shell=True, cwd=COQ, stdout=subprocess.PIPE, stderr=subprocess.STDOUT, text=True)
    for ext in ('.vo', '.vok', '.vos', '.glob'):
        try:
            os.remove(fn[:-2] + ext)
        except OSError:
            pass
    try:
        os.remove(os.path.join(CASES, '.' + name + '.aux'))
    except OSError:
        pass
    return p.returncode, p.stdout


def parse_nat_list(out):
    """parse `= [1%nat; 2%nat] : list nat` or `= [] : list nat` (possibly wrapped)"""
    m = re.search(r'=\s*\[(.*?)\]\s*:\s*list nat', out, re.S)
    if not m:
        return None
    body = m.group(1).strip()
    if not body:
        return []
    return [int(re.sub(r'%nat', '', x).strip()) for x in body.replace('\n', ' ').split(';')]


def run_suite_in_coq(pid, suite, header, model_expr, eqb_expr, in_ty, out_ty, cases, shard=400, timeout=900):
    """cases: list of (coq_input_text, coq_output_text).  Returns (mismatch indices, error text or None)."""
    if not cases:
        return [], None
    shards = [cases[i:i + shard] for i in range(0, len(cases), shard)]
    jobs = []
    for k, sh in enumerate(shards):
        body = [header, 'From SageVerif Require Import Base.Corr.', 'Import ListNotations.',
                'Open Scope list_scope.',
                'Definition cases : list ((%s) * (%s)) := [' % (in_ty, out_ty)]
        body.append(';\n'.join('  (%s, %s)' % (i, o) for i, o in sh))
        body.append('].')
        body.append('Eval vm_compute in (mism (%s) (%s) cases).' % (model_expr, eqb_expr))
        jobs.append(('%s_%s_%d' % (pid, suite, k), '\n'.join(body) + '\n'))
    from concurrent.futures import ThreadPoolExecutor
    with ThreadPoolExecutor(max_workers=min(NPROC, len(jobs))) as ex:
        results = list(ex.map(lambda j: coq_eval_file(j[0], j[1], timeout), jobs))
    mism = []
    for k, (rc, out) in enumerate(results):
        lst = parse_nat_list(out) if rc == 0 else None
        if lst is None:
            return None, 'cases file %s_%s_%d did not evaluate (rc=%d): %s' % (pid, suite, k, rc, out[-1500:])
        mism += [k * shard + i for i in lst]
    return mism, None


def coq_show(header, expr, timeout=120):
    rc, out = coq_eval_file('show_%d' % os.getpid(), header + '\nImport ListNotations.\nEval vm_compute in (%s).\n' % expr, timeout)
    return out.strip()


# ----------------------------------------------------------------------------- evidence / protocol
def sha(obj):
    return hashlib.sha256(json.dumps(obj, sort_keys=True, default=str).encode()).hexdigest()[:16]


def load_known_findings():
    p = os.path.join(VERIF, 'known_findings.json')
    if not os.path.exists(p):
        return {'findings': [], 'fixed': []}
    return json.load(open(p))


class Ctx:
    """Per-run context handed to property modules."""

    def __init__(self, pid, tier, seed):
        self.pid = pid
        self.tier = tier
        self.seed = seed
        self.rng = random.Random(seed * 1000003 + int(hashlib.sha256(pid.encode()).hexdigest()[:8], 16))
        self.t0 = time.time()
        self.evaluations = 0
        self.nontrivial = set()
        self.samples = []
        self.dist = {}
        self.suites = {}
        self.problems = []        # list of dicts: kind, detail, inputs
        self.known_hits = []      # known findings reproduced
        self.notes = []

    def count(self, key, sub):
        d = self.dist.setdefault(key, {})
        d[str(sub)] = d.get(str(sub), 0) + 1

    def quick(self):
        return self.tier == 'quick'

    def n(self, quick_n, thorough_n):
        return quick_n if self.tier == 'quick' else thorough_n

    def problem(self, kind, detail, inputs=None, failing_input_found=False):
        self.problems.append({'kind': kind, 'detail': detail, 'inputs': inputs,
                              'failing_input_found': failing_input_found})


def write_replay(pid, payload):
    d = os.path.join(VERIF, 'replay')
    os.makedirs(d, exist_ok=True)
    path = os.path.join(d, '%s-%s.json' % (pid, sha(payload)))
    json.dump(payload, open(path, 'w'), indent=1, default=str)
    return path


def write_evidence(pid, tier, seed, coverage, assumptions, wall, violations):
    d = os.path.join(VERIF, 'evidence')
    os.makedirs(d, exist_ok=True)
    ev = {'property_id': pid, 'tier': tier, 'seed': seed, 'level': 'proof', 'coverage': coverage,
          'assumptions': assumptions, 'wall_s': round(wall, 2), 'violations': violations}
    json.dump(ev, open(os.path.join(d, pid + '.json'), 'w'), indent=1, default=str)
